"""
Probe blocks: user-defined sequential blocks whose every life-cycle routine is scripted
(succeed / leave uninitialised / raise / complete at virtual time t / never complete) and logs
into the case history.  They are the "application code" side of the circuit boundary.
"""

import asyncio

_CLASS_CACHE = {}


class ProbeFault(Exception):
    """Scripted failure raised by a probe routine."""


def probe_class(features):
    """
    Return a probe class with the given features (frozenset of strings):
      persist     - AddonPersistence (_restore_state, get_state)
      ainit       - init_async defined
      astop       - stop_async defined
      maintask    - AddonMainTask (_maintask)
      initdef     - init_from_value defined (accepts initdef)
    """
    import edzed
    features = frozenset(features)
    if features in _CLASS_CACHE:
        return _CLASS_CACHE[features]
    bases = []
    if 'persist' in features:
        bases.append(edzed.AddonPersistence)
    if 'maintask' in features:
        bases.append(edzed.AddonMainTask)
    elif 'ainit' in features or 'astop' in features:
        bases.append(edzed.AddonAsync)
    bases.append(edzed.SBlock)

    def act(self, phase):
        """Run the scripted behaviour of a synchronous phase."""
        script = self.x_script.get(phase, 'ok')
        self.x_hist.log('call', self.name, phase, script if isinstance(script, str) else script[0])
        for ev, data in self.x_emit.get(phase, ()):
            try:
                ev.send(self, **data)
            except Exception as err:
                self.x_hist.log('emit_failed', self.name, phase, repr(err))
                raise
        kind = script if isinstance(script, str) else script[0]
        if kind == 'raise':
            self.x_hist.log('raise', self.name, phase)
            raise ProbeFault(f"{self.name}:{phase}")
        return kind

    ns = {}

    def start(self):
        self.x_hist.log('enter', self.name, 'start')
        if self.x_script.get('start_before_super') == 'raise':
            self.x_hist.log('raise', self.name, 'start')
            raise ProbeFault(f"{self.name}:start")
        super(cls, self).start()
        act(self, 'start')
        self.x_hist.log('return', self.name, 'start')
    ns['start'] = start

    def stop(self):
        self.x_hist.log('enter', self.name, 'stop')
        try:
            act(self, 'stop')
        finally:
            super(cls, self).stop()
        self.x_hist.log('return', self.name, 'stop')
    ns['stop'] = stop

    def init_regular(self):
        kind = act(self, 'init_regular')
        if kind == 'set':
            self.set_output(('regular', self.name))
    ns['init_regular'] = init_regular

    def _event(self, etype, data):
        self.x_hist.log('event', self.name, etype, dict(data))
        if etype == 'init':
            self.set_output(('event', data.get('source')))
            return 'initialised'
        if etype == 'ping':
            return 'pong'
        kind = act(self, 'handler')
        if kind == 'set':
            self.set_output(('handled', data.get('n')))
        return kind
    ns['_event'] = _event

    if 'initdef' in features:
        def init_from_value(self, value):
            kind = act(self, 'init_from_value')
            if kind != 'leave':
                self.set_output(('initdef', value))
        ns['init_from_value'] = init_from_value

    if 'persist' in features:
        def _restore_state(self, state):
            kind = act(self, 'restore')
            if kind != 'leave':
                self.set_output(('restored', state))
        ns['_restore_state'] = _restore_state

        def get_state(self):
            return self.output
        ns['get_state'] = get_state

    if 'ainit' in features:
        async def init_async(self):
            script = self.x_script.get('init_async', ('ok', 0))
            kind, delay = script
            self.x_hist.log('call', self.name, 'init_async', kind)
            try:
                if kind == 'never':
                    await asyncio.sleep(10 ** 9)
                await asyncio.sleep(delay)
            except asyncio.CancelledError:
                self.x_hist.log('cancelled', self.name, 'init_async')
                raise
            for ev, data in self.x_emit.get('init_async', ()):
                ev.send(self, **data)
            if kind == 'raise':
                self.x_hist.log('raise', self.name, 'init_async')
                raise ProbeFault(f"{self.name}:init_async")
            if kind == 'ok':
                self.set_output(('async', self.name))
            self.x_hist.log('return', self.name, 'init_async')
        ns['init_async'] = init_async

    if 'astop' in features or 'maintask' in features:
        async def stop_async(self):
            script = self.x_script.get('stop_async', ('ok', 0))
            kind, delay = script
            self.x_hist.log('enter', self.name, 'stop_async')
            try:
                if 'maintask' in features:
                    await super(cls, self).stop_async()
                if kind == 'never':
                    await asyncio.sleep(10 ** 9)
                await asyncio.sleep(delay)
            except asyncio.CancelledError:
                self.x_hist.log('cancelled', self.name, 'stop_async')
                raise
            if kind == 'raise':
                self.x_hist.log('raise', self.name, 'stop_async')
                raise ProbeFault(f"{self.name}:stop_async")
            self.x_hist.log('return', self.name, 'stop_async')
        ns['stop_async'] = stop_async

    if 'maintask' in features:
        async def _maintask(self):
            script = self.x_script.get('maintask', ('forever', 0))
            kind, delay = script
            self.x_hist.log('enter', self.name, 'maintask')
            try:
                if kind == 'set_first':
                    # a value obtained without waiting at the very first run of the task,
                    # i.e. before the simulator begins to initialise the blocks
                    self.set_output(('maintask', self.name))
                    await asyncio.sleep(10 ** 9)
                if kind == 'forever':
                    await asyncio.sleep(10 ** 9)
                await asyncio.sleep(delay)
            except asyncio.CancelledError:
                self.x_hist.log('cancelled', self.name, 'maintask')
                raise
            if kind == 'raise':
                self.x_hist.log('raise', self.name, 'maintask')
                raise ProbeFault(f"{self.name}:maintask")
            self.x_hist.log('return', self.name, 'maintask')
        ns['_maintask'] = _maintask

    cls = type('Probe_' + '_'.join(sorted(features)) if features else 'Probe', tuple(bases), ns)
    _CLASS_CACHE[features] = cls
    return cls


def make_probe(name, features, hist, script=None, emit=None, **kwargs):
    cls = probe_class(features)
    return cls(name, x_hist=hist, x_script=dict(script or {}), x_emit=dict(emit or {}), **kwargs)
