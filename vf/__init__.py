"""Runtime-monitoring machinery for xitop/edzed (see /verif/DESIGN.md)."""
