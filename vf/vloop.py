"""
VirtualLoop - a real asyncio selector event loop running on virtual time.

Only the clock and the blocking select() are replaced; scheduling order,
task stepping, cancellation etc. are the genuine asyncio code.  When no
callback is ready the clock jumps to the earliest scheduled handle
(optionally plus an injected wake-up latency), so only interleavings that
a real loop could produce are produced.
"""

import asyncio
import heapq
import selectors
import sys

MAXSEL = 24 * 3600


class Deadlock(Exception):
    """The loop would block forever (nothing ready, nothing scheduled)."""


class Overrun(Exception):
    """Logical-step watchdog: too many loop iterations in a phase that should be quiet."""


class _Selector:
    def __init__(self):
        self._real = selectors.DefaultSelector()
        self._loop = None

    def select(self, timeout=None):
        loop = self._loop
        if loop.select_budget is not None:
            loop.select_budget -= 1
            if loop.select_budget < 0:
                loop.select_budget = None
                raise Overrun("too many event loop iterations")
        # logical-step watchdog for the whole run: the loop keeps iterating while the virtual time
        # stands still (e.g. an endless chain of zero-delay timers) - a real loop would be busy
        # forever; decided by the number of iterations, not by the wall clock
        loop.stall += 1
        if loop.stall > loop.stall_limit:
            loop.stall = 0
            raise Overrun(f"{loop.stall_limit} event loop iterations without the time advancing")
        events = self._real.select(0)
        if events or (timeout is not None and timeout <= 0):
            return events
        loop = self._loop
        if timeout is None:
            if loop.real_block > 0:
                # threads (executor) may wake us up through the self-pipe
                events = self._real.select(loop.real_block)
                if events:
                    return events
            raise Deadlock("event loop would block forever")
        loop._advance(timeout)
        return []

    def __getattr__(self, name):
        return getattr(self._real, name)


class VTimerHandle(asyncio.TimerHandle):
    """TimerHandle that remembers when it was created and whether it has run."""

    def _run(self):
        loop = self._loop
        self.vf_fired = True
        self.vf_fired_at = loop._vt
        # (timers that multiply at one instant are all run within ONE loop iteration)
        loop.stall_timers += 1
        if loop.stall_timers > loop.stall_timer_limit:
            loop.stall_timers = 0
            raise Overrun(f"{loop.stall_timer_limit} timer callbacks without the time advancing")
        return super()._run()


def _is_edzed_code(code):
    return '/edzed/' in code.co_filename


class VirtualLoop(asyncio.SelectorEventLoop):
    def __init__(self, start=1000.0, track=True):
        sel = _Selector()
        super().__init__(sel)
        sel._loop = self
        self._vt = float(start)
        self.t0 = float(start)
        self.latency = None         # callable() -> extra seconds added to every time jump
        self.real_block = 0.0       # seconds of real blocking allowed (executor threads)
        self.select_budget = None   # remaining loop iterations (None = unlimited)
        self.stall = 0              # iterations since the virtual time advanced
        self.stall_timers = 0       # timer callbacks run since the virtual time advanced
        self.stall_limit = 100000
        self.stall_timer_limit = 100000
        self.track = track
        self.handles = []           # every TimerHandle created (when tracking)
        self.tasks = []             # every Task created
        self.exc_log = []           # contexts passed to the loop exception handler
        self.jumps = 0
        self.task_hook = None       # callable(task) invoked for every task created
        self.set_task_factory(self._factory)
        self.set_exception_handler(self._on_exc)

    def _on_exc(self, loop, context):
        self.exc_log.append(
            {k: (repr(v) if not isinstance(v, str) else v) for k, v in context.items()})

    def time(self):
        return self._vt

    def _advance(self, timeout):
        if self._scheduled and timeout < MAXSEL:
            t = self._scheduled[0]._when
        else:
            t = self._vt + timeout
        if self.latency is not None:
            t += self.latency()
        if t > self._vt:
            self._vt = t
            self.jumps += 1
            self.stall = self.stall_timers = 0

    def call_at(self, when, callback, *args, context=None):
        # same as BaseEventLoop.call_at, with a recording handle class
        if when is None:
            raise TypeError("when cannot be None")
        self._check_closed()
        handle = VTimerHandle(when, callback, args, self, context)
        handle.vf_fired = False
        handle.vf_fired_at = None
        handle.vf_created = self._vt
        if handle._source_traceback:
            del handle._source_traceback[-1]
        heapq.heappush(self._scheduled, handle)
        handle._scheduled = True
        if self.track:
            self.handles.append(handle)
        return handle

    @staticmethod
    def _factory(loop, coro, context=None):
        if context is None:
            task = asyncio.Task(coro, loop=loop)
        else:
            task = asyncio.Task(coro, loop=loop, context=context)
        if loop.track:
            loop.tasks.append(task)
        if loop.task_hook is not None:
            loop.task_hook(task)
        return task

    # ---- inspection helpers ----
    def live_timers(self):
        """Scheduled, not cancelled timer handles."""
        return [h for h in self._scheduled if not h._cancelled]

    def edzed_timers(self):
        """Live timer handles whose callback is a bound method of an edzed block."""
        import edzed
        out = []
        for h in self.live_timers():
            owner = getattr(h._callback, '__self__', None)
            if isinstance(owner, edzed.Block):
                out.append(h)
        return out

    def pending_tasks(self, exclude=()):
        return [t for t in self.tasks if not t.done() and t not in exclude]

    @staticmethod
    def task_is_edzed(task):
        coro = task.get_coro()
        code = getattr(coro, 'cr_code', None)
        if code is not None and _is_edzed_code(code):
            return True
        return task.get_name().startswith('edzed:')


def run(main, *, start=1000.0, drain=0.0, track=True, setup=None, drain_budget=50000):
    """
    Run coroutine function main(loop) on a fresh VirtualLoop.

    Return (loop, result, exception).  After main finished, optionally
    keep the loop running for 'drain' virtual seconds (to see whether
    anything left behind fires), then cancel leftovers and close.
    The loop object stays inspectable (registries) after closing.
    """
    loop = VirtualLoop(start, track=track)
    if setup is not None:
        setup(loop)
    result = exc = None
    try:
        try:
            result = loop.run_until_complete(main(loop))
        except BaseException as err:    # incl. Deadlock, CancelledError
            if isinstance(err, (KeyboardInterrupt, SystemExit)):
                raise
            exc = err
        loop.after_main = {
            'tasks': [t for t in loop.tasks if not t.done()],
            'timers': loop.edzed_timers(),
            'vt': loop._vt,
        }
        if drain > 0 and not isinstance(exc, Deadlock):
            loop.select_budget = drain_budget
            try:
                loop.run_until_complete(asyncio.sleep(drain))
            except BaseException as err:
                if isinstance(err, (KeyboardInterrupt, SystemExit)):
                    raise
                loop.drain_exc = err
            finally:
                loop.select_budget = None
    finally:
        try:
            left = [t for t in asyncio.all_tasks(loop) if not t.done()]
            for t in left:
                t.cancel()
            if left:
                try:
                    loop.run_until_complete(asyncio.gather(*left, return_exceptions=True))
                except BaseException:
                    pass
        finally:
            loop.close()
    return loop, result, exc
