"""
Worker process: runs one shard of one check (or replays one case).

usage: python -m vf.worker <PROP> <tier> <seed> <shard> <nshards> <outfile> [<replay.json>]
"""

import faulthandler
import importlib
import json
import sys
import traceback

from . import core


def main(argv):
    prop, tier, seed, shard, nshards, outfile = argv[:6]
    replay = argv[6] if len(argv) > 6 else None
    seed, shard, nshards = int(seed), int(shard), int(nshards)
    faulthandler.enable()
    ctx = core.Ctx(prop, tier, seed, shard, nshards, replay=replay is not None)
    status = 'ok'
    try:
        core.setup_edzed()
        mod = importlib.import_module(f"vf.checks.{prop.lower()}")
        if replay is not None:
            with open(replay, encoding='utf-8') as f:
                rep = json.load(f)
            mod.replay(rep, ctx)
        else:
            mod.run_shard(ctx)
    except core.Inconclusive as err:
        ctx.inconclusive.append(str(err))
    except BaseException as err:    # harness failure => inconclusive, never a verdict
        if isinstance(err, (KeyboardInterrupt, SystemExit)):
            raise
        status = 'crash'
        ctx.inconclusive.append(
            f"harness exception in shard {shard}: {type(err).__name__}: {err}\n"
            + traceback.format_exc(limit=12))
    out = ctx.to_json()
    out['status'] = status
    with open(outfile, 'w', encoding='utf-8') as f:
        json.dump(out, f)
    return 0


if __name__ == '__main__':
    sys.exit(main(sys.argv[1:]))
