"""
C05 - after start-up every block has a valid output, taken from the documented sources.

Trace properties + reference model of the documented initialisation procedure.  The circuit is
made of probe blocks whose every init source is scripted (absent / succeeds / leaves the block
uninitialised / raises / async: completes at virtual time tau or never) and which may send
'init' events to other blocks from inside each routine, plus ValuePoll, InitAsync + an Input
initialised only by the InitAsync's output event, and optionally a combinational block whose
first evaluation fails.  Every creation order of the blocks is executed.
"""

import asyncio
import collections.abc
import datetime as _dt
import itertools

from .. import core, harness, probes, vclock, vloop

PROP = 'C05'
TECHNIQUE = ('runtime monitoring: per-block log of init routine calls / init-time events, outputs and verdict of wait_init() compared with a reference model of the documented procedure, for every creation order')
LEVEL = 'exploration'
RULE = ("case = (2..4 probe blocks, each with a random subset of init sources {saved state "
        "(stored/missing, expiration None/<=0/shorter/longer than the downtime, stop timestamp "
        "present/missing), init_async (ok/leave/raise at tau, never; init_timeout >0, <=0), "
        "init_regular (sets/does not set/raises), initdef (accepted/ignored/raises)}, an acyclic "
        "set of 'init' events sent from inside init routines to other blocks, optional ValuePoll "
        "(k UNDEF results first, initdef or not), InitAsync feeding an event-only Input, a "
        "FuncBlock whose first evaluation raises, a block with asynchronous clean-up) x ALL "
        "creation orders of the blocks (<=24); the ordered log of init routine calls and events, "
        "the outputs when wait_init() returns and the success verdict are compared with the "
        "reference model, the verdict also across the creation orders; non-trivial = at least "
        "two different init sources ran or an init-time event was delivered")
ASSUMPTIONS = [
    "reference model = the documented procedure: pass 1 restores saved states in creation order; "
    "async routines of the still uninitialised blocks with init_timeout > 0 run concurrently, "
    "each cut at its own timeout; pass 2 runs init_regular and then, if still uninitialised, "
    "init_from_value(initdef); an event reaching a block that has not completed both passes "
    "makes the missing synchronous steps run first",
    "errors: a failing restore or init_async is only logged; a failing init_regular / "
    "init_from_value / first evaluation, or a block left uninitialised, fails the start",
    "init routines that raise are generated only in blocks that are not destinations of "
    "init-time events, and the event graph is acyclic (events into a block from inside its own "
    "running init step: documented recursion guard, outcome unspecified)",
    "async completion times are pairwise distinct and differ from every timeout by >= 0.25 s",
    "the wall clock is virtual (saved-state expiration is measured against it)",
]
REQUIRED = {'orders_executed': 1000, 'call_logs_compared': 1000, 'successful_starts': 200,
            'failed_starts': 200, 'early_init_events': 100, 'async_timeouts': 50,
            'restored_blocks': 100, 'expired_states': 30, 'first_eval_failures': 20,
            'first_eval_failure_with_async_cleanup': 10, 'verdict_sets_compared': 200,
            'wait_bounded_checked': 500, 'valuepoll_cases': 50, 'initasync_cases': 50,
            'shutdown_in_first_evaluation': 10}
SHARDS = {'quick': 16, 'thorough': 16}
TIMEOUT = {'quick': 300, 'thorough': 3000}

BASE = _dt.datetime(2022, 2, 2, 2, 2, 2)
DOWNTIME = 100.0


class Fail(Exception):
    """model: the start fails"""


def model(spec, order):
    """
    Reference model.  Returns (ok, log, outs, t_init) with log = [(block, routine) |
    (block, 'event', source)], outs = {block: tag}, t_init = virtual duration of the async phase.
    """
    B = {b['name']: b for b in spec['blocks']}
    st = {n: {'steps': 0, 'out': None} for n in B}
    log = []
    for n, b in B.items():
        if b.get('early'):
            # the block's main task (created in start()) delivers a value at its first run,
            # before the simulator's first initialisation pass
            st[n]['out'] = ('maintask', n)

    def emit(name, phase):
        for dst in B[name].get('emit', {}).get(phase, ()):
            deliver(name, dst)
        for dst in B[name].get('emit_ping', {}).get(phase, ()):
            # an event that does not initialise its destination: the synchronous steps still
            # have to run first
            s = st[dst]
            if 0 <= s['steps'] < 2:
                init_sblock(dst, True)
            log.append((dst, 'ping', name))

    def deliver(src, dst):
        s = st[dst]
        if 0 <= s['steps'] < 2:
            init_sblock(dst, True)
        log.append((dst, 'event', src))
        s['out'] = ('event', src)

    def restore_applies(b):
        p = b.get('persist')
        if not p or not p['stored']:
            return False
        if spec.get('read_fail') == b['name']:
            return False    # the storage cannot read the record: logged, next source
        exp = p['expiration']
        if exp is not None:
            if exp <= 0:
                return False
            if spec['stop_time'] is True and exp < DOWNTIME:
                return False
        return True

    def init_sblock(name, full):
        b, s = B[name], st[name]
        steps = s['steps']
        if steps == 0:
            s['steps'] = -1
            if restore_applies(b):
                log.append((name, 'restore'))
                emit(name, 'restore')
                kind = b['persist']['script']
                if kind == 'ok':
                    s['out'] = ('restored', b['persist']['state'])
                # 'raise': suppressed; 'leave': nothing
            s['steps'] = 1
        if steps == 1 or (steps == 0 and full):
            s['steps'] = -2
            log.append((name, 'init_regular'))
            emit(name, 'init_regular')
            if b['regular'] == 'raise':
                raise Fail(f"{name}: init_regular")
            if b['regular'] == 'set':
                s['out'] = ('regular', name)
            if s['out'] is None and b.get('initdef'):
                log.append((name, 'init_from_value'))
                emit(name, 'init_from_value')
                kind = b['initdef']['script']
                if kind == 'raise':
                    raise Fail(f"{name}: init_from_value")
                if kind == 'ok':
                    s['out'] = ('initdef', b['initdef']['value'])
            s['steps'] = 2

    t_init = 0.0
    try:
        for n in order:
            if n in B:
                init_sblock(n, False)
        # async phase
        tasks = []
        for n in order:
            if n not in B:
                continue
            a = B[n].get('ainit')
            if a and st[n]['out'] is None and a['timeout'] > 0:
                log.append((n, 'init_async'))
                tasks.append(n)
        lib = spec.get('lib', {})
        ends = []
        vp = lib.get('valuepoll')
        vp_out = None
        if vp:
            t_first = vp['undef'] * vp['interval']
            ends.append(min(t_first, vp['timeout']))
            if t_first < vp['timeout']:
                vp_out = 'value'
        ia = lib.get('initasync')
        ia_ok = False
        if ia:
            ends.append(min(ia['tau'], ia['timeout']))
            # (a failed / overlong coroutine: the default value - any object, also a false one -
            # is used, when there is one)
            ia_ok = (ia['tau'] < ia['timeout'] and not ia.get('fail')) or 'initdef' in ia
        completions = []
        for n in tasks:
            kind, tau = B[n]['ainit']['script']
            T = B[n]['ainit']['timeout']
            if kind != 'never' and tau < T:
                completions.append((tau, n, kind))
                ends.append(tau)
            else:
                ends.append(T)
        t_init = max(ends) if ends else 0.0
        for tau, n, kind in sorted(completions):
            emit(n, 'init_async')
            if kind == 'ok':
                st[n]['out'] = ('async', n)
        for n in order:
            if n in B:
                init_sblock(n, False)
        for n in B:
            if st[n]['out'] is None:
                raise Fail(f"{n}: not initialized")
        if vp and vp_out is None and not vp['initdef']:
            raise Fail("valuepoll not initialized")
        if ia and not ia_ok:
            raise Fail("input fed by InitAsync not initialized")
        if spec.get('calc') in ('raise', 'undef'):
            raise Fail("first evaluation")
        if spec.get('calc') == 'shutdown':
            raise Fail("shutdown requested in the first evaluation")
        ok = True
    except Fail as err:
        ok = str(err)
    outs = {n: st[n]['out'] for n in B}
    return ok, log, outs, t_init


def run_order(spec, order, ctx):
    import edzed
    hist = core.History()
    res = {}

    def build():
        objs = {}
        B = {b['name']: b for b in spec['blocks']}
        pending_emit = []
        for name in order:
            if name == '#vp':
                vp = spec['lib']['valuepoll']
                cnt = itertools.count()

                def func(vp=vp, cnt=cnt):
                    return edzed.UNDEF if next(cnt) < vp['undef'] else 'value'
                if vp.get('async_func'):
                    # the acquisition function may be a coroutine function as well
                    syncfunc = func

                    async def func():      # pylint: disable=function-redefined
                        return syncfunc()
                kw = {'initdef': 'vp-default'} if vp['initdef'] else {}
                if vp.get('to_oa'):
                    # every polled value goes to an output block, the first one at the very
                    # first step of the polling task
                    # ... directly or through an explicitly created Repeat block
                    kw['on_output'] = edzed.Event('rp' if vp['to_oa'] == 'rp' else 'oa', 'put')
                objs['#vp'] = edzed.ValuePoll('vp', func=func, interval=vp['interval'],
                                              init_timeout=vp['timeout'], **kw)
                continue
            if name == '#oa':
                async def oacoro(value):
                    hist.log('oa_run', value)
                objs['#oa'] = edzed.OutputAsync('oa', coro=oacoro, mode='wait', on_error=None,
                                                stop_timeout=2)
                continue
            if name == '#rp':
                objs['#rp'] = edzed.Repeat('rp', dest='oa', etype='put', interval=50.0, count=2)
                continue
            if name == '#ia':
                ia = spec['lib']['initasync']

                async def icoro(ia=ia):
                    await asyncio.sleep(ia['tau'])
                    if ia.get('fail'):
                        raise RuntimeError('vf: no value')
                    return 'ia-result'
                iakw = {'initdef': ia['initdef']} if 'initdef' in ia else {}
                objs['#ia'] = edzed.InitAsync('ia', init_coro=[icoro], init_timeout=ia['timeout'],
                                              on_output=edzed.Event('fed', 'put'), **iakw)
                continue
            if name == '#fed':
                objs['#fed'] = edzed.Input('fed')
                continue
            if name == '#calc':
                def cf(x):
                    hist.log('first_eval', spec['calc'])
                    if spec['calc'] == 'raise':
                        raise RuntimeError('calc fault')
                    if spec['calc'] == 'undef':
                        return edzed.UNDEF      # a combinational output must never be UNDEF
                    return 0
                kw = {}
                if spec['calc'] == 'shutdown':
                    # the very first evaluation makes the block send 'shutdown' to the control
                    # block: the simulation is stopping (normally) while somebody waits for the
                    # end of the initialisation
                    kw['on_output'] = edzed.Event('_ctrl', 'shutdown')
                objs['#calc'] = edzed.FuncBlock('calc', func=cf, **kw).connect(
                    spec['blocks'][0]['name'])
                continue
            if name == '#astop':
                objs['#astop'] = probes.make_probe(
                    'astop', {'astop'}, hist, {'init_regular': 'set', 'stop_async': ('ok', 1.0)},
                    stop_timeout=5)
                continue
            b = B[name]
            feats = set()
            kw = {}
            script = {'init_regular': b['regular']}
            if b.get('persist'):
                feats.add('persist')
                kw['persistent'] = True
                if b['persist']['expiration'] is not None:
                    kw['expiration'] = b['persist']['expiration']
                script['restore'] = b['persist']['script']
            if b.get('ainit'):
                feats.add('ainit')
                kw['init_timeout'] = b['ainit']['timeout']
                script['init_async'] = tuple(b['ainit']['script'])
            if b.get('early'):
                feats.add('maintask')
                script['maintask'] = ('set_first', 0)
            if b.get('initdef'):
                feats.add('initdef')
                kw['initdef'] = b['initdef']['value']
                script['init_from_value'] = b['initdef']['script']
            blk = probes.make_probe(name, feats, hist, script, **kw)
            objs[name] = blk
            for phase, dsts in b.get('emit', {}).items():
                pending_emit.append((blk, phase, dsts, 'init'))
            for phase, dsts in b.get('emit_ping', {}).items():
                pending_emit.append((blk, phase, dsts, 'ping'))
        for blk, phase, dsts, etype in pending_emit:
            blk.x_emit.setdefault(phase, []).extend((edzed.Event(d, etype), {}) for d in dsts)
        # combinational blocks fed by constants only: nothing ever triggers their evaluation
        # except the first evaluation of the whole circuit
        if spec.get('konst'):
            edzed.FuncBlock('konst1', func=lambda a, b: a * b).connect(6, edzed.Const(7))
            edzed.And('konst2').connect(True, edzed.Const(1))
            edzed.Not('konst3').connect('konst2')
        return objs

    async def main(loop):
        hist.loop = loop
        edzed.reset_circuit()
        objs = build()
        circuit = edzed.get_circuit()
        storage = {}
        for b in spec['blocks']:
            p = b.get('persist')
            if p and p['stored']:
                storage[str(objs[b['name']])] = p['state']
        if spec['stop_time']:
            ts = holder['clock'].peek_time() - DOWNTIME
            if spec['stop_time'] is not True:
                # a timestamp that is not a float (e.g. a back-end that stringifies values) is
                # documented as unusable: a warning, the expiration is then not checked
                ctx.count('unusable_stop_timestamps')
                ts = {'str': str(ts), 'int': int(ts), 'bytes': str(ts).encode(),
                      'none': None, 'list': [ts]}[spec['stop_time']]
            storage['edzed-stop-time'] = ts
        storage['foreign-key'] = 1
        if spec.get('read_fail'):
            badkey = str(objs[spec['read_fail']])

            class FailingStorage(collections.abc.MutableMapping):
                """A real mapping class (get(), pop() ... built on the primitives) whose
                back-end fails to read one record."""
                def __init__(self, init):
                    self._d = dict(init)

                def __getitem__(self, key):
                    if key == badkey:
                        hist.log('storage_read_error', key)
                        raise OSError(f"vf: record {key!r}: checksum error")
                    return self._d[key]

                def __setitem__(self, key, value):
                    self._d[key] = value

                def __delitem__(self, key):
                    del self._d[key]

                def __iter__(self):
                    return iter(self._d)

                def __len__(self):
                    return len(self._d)
            storage = FailingStorage(storage)
            ctx.count('storage_read_failures')
        circuit.set_persistent_data(storage)
        t0 = loop.time()
        simtask = asyncio.create_task(circuit.run_forever(), name='vf: simtask')
        try:
            await circuit.wait_init()
            res['wait_init'] = 'returned'
        except edzed.EdzedInvalidState as err:
            res['wait_init'] = 'raised'
            res['wait_exc'] = str(err)[:150]
        res['t_wait'] = loop.time() - t0
        res['outs'] = {n: (None if blk.output is edzed.UNDEF else blk.output)
                       for n, blk in objs.items() if isinstance(blk, edzed.SBlock)}
        res['undef_blocks'] = sorted(blk.name for blk in circuit.getblocks()
                                     if blk.output is edzed.UNDEF)
        res['nblocks'] = len(list(circuit.getblocks()))
        res['ready'] = circuit.is_ready()
        res['error_at_return'] = circuit.error
        res['simtask_done'] = simtask.done()
        await asyncio.sleep(0)
        await asyncio.sleep(0.01)
        res['ready_later'] = circuit.is_ready()
        try:
            await circuit.shutdown()
            res['shutdown'] = None
        except BaseException as err:    # pylint: disable=broad-except
            res['shutdown'] = err
        res['error'] = circuit.error

    holder = {}

    def setup(loop):
        holder['clock'] = vclock.install(vclock.VClock(loop, BASE))
    try:
        loop, _r, exc = vloop.run(main, setup=setup, drain=5.0)
    finally:
        vclock.uninstall()
    edzed.reset_circuit()
    res['exc'] = exc
    res['pending'] = [t.get_name() for t in loop.after_main['tasks'] if loop.task_is_edzed(t)]
    return hist, res


def observed_log(hist):
    out = []
    for e in hist.entries:
        if e[3] in ('astop',):
            continue
        if e[2] == 'call' and e[4] in ('restore', 'init_async', 'init_regular', 'init_from_value'):
            out.append((e[3], e[4]))
        elif e[2] == 'event' and e[4] == 'init':
            out.append((e[3], 'event', e[5].get('source')))
        elif e[2] == 'event' and e[4] == 'ping':
            out.append((e[3], 'ping', e[5].get('source')))
    return out


def judge_order(spec, order, hist, res, ctx):
    where = f"order={order} spec={spec}"
    if res['exc'] is not None:
        raise core.Violation('harness-run-exception', f"{where}: {res['exc']!r}")
    ok, mlog, mouts, t_init = model(spec, order)
    got_log = observed_log(hist)
    ctx.count('orders_executed')
    # P1: each routine at most once per block
    seen = set()
    for item in got_log:
        if item[1] != 'event':
            if item in seen:
                raise core.Violation('init-routine-called-twice', f"{where}: {item} in {got_log}")
            seen.add(item)
    success = res['wait_init'] == 'returned'
    # P4
    if success:
        undef = [n for n, o in res['outs'].items() if o is None] + res['undef_blocks']
        ctx.count('outputs_checked_after_wait_init', res['nblocks'])
        if undef:
            raise core.Violation('wait_init-returned-with-undef-output',
                                 f"{where}: blocks {undef} have no output")
        if not res['ready'] or res['error_at_return'] is not None:
            raise core.Violation(
                'wait_init-returned-but-simulation-failed',
                f"{where}: wait_init() returned normally although the simulation is not running: "
                f"error={res['error_at_return']!r} (model: {ok})")
        if not res['ready_later'] and ok is True:
            raise core.Violation('simulation-died-after-init', f"{where}: {res['error']!r}")
    elif ok == "shutdown requested in the first evaluation":
        ctx.count('shutdown_in_first_evaluation')
        if not isinstance(res['error'], asyncio.CancelledError):
            raise core.Violation('wait_init-raised-without-error',
                                 f"{where}: {res.get('wait_exc')} error={res['error']!r}")
    else:
        if res['error'] is None or isinstance(res['error'], asyncio.CancelledError):
            raise core.Violation('wait_init-raised-without-error',
                                 f"{where}: {res.get('wait_exc')} error={res['error']!r}")
    # P5 (per order): verdict equals the model's
    if success != (ok is True):
        raise core.Violation(
            'start-verdict-differs-from-model',
            f"{where}: wait_init() {res['wait_init']} ({res.get('wait_exc')}), model: {ok}; "
            f"log {got_log}")
    # P2/P3: the ordered call log (compared up to the failure point for failing starts)
    ctx.count('call_logs_compared')

    def per_block(log):
        # the property speaks about the order of sources per block (and the events it
        # receives in between), not about the interleaving of different blocks
        out = {}
        for item in log:
            out.setdefault(item[0], []).append(item[1:])
        return out
    aborted = ok is not True and ('init_regular' in ok or 'init_from_value' in ok)
    # (a start aborted by a raising routine: which other blocks had their turn before the
    # failure depends on the pass order, which the property does not fix - not compared)
    if not aborted and per_block(got_log) != per_block(mlog):
        raise core.Violation('init-call-log-differs',
                             f"{where}: (model verdict: {ok}) per-block logs differ: observed "
                             f"{per_block(got_log)}, model {per_block(mlog)}")
    if ok is True:
        for n, tag in mouts.items():
            if res['outs'].get(n) != tag:
                raise core.Violation('initialised-from-wrong-source',
                                     f"{where}: block {n} output {res['outs'].get(n)!r}, model {tag!r}")
        lib = spec.get('lib', {})
        if lib.get('valuepoll'):
            vp = lib['valuepoll']
            exp = 'value' if vp['undef'] * vp['interval'] < vp['timeout'] else 'vp-default'
            if res['outs'].get('#vp') != exp:
                raise core.Violation('initialised-from-wrong-source',
                                     f"{where}: ValuePoll output {res['outs'].get('#vp')!r}, expected {exp!r}")
        if lib.get('initasync'):
            ia = lib['initasync']
            exp = 'ia-result' if ia['tau'] < ia['timeout'] and not ia.get('fail') else ia['initdef']
            got = res['outs'].get('#fed')
            if got != exp or type(got) is not type(exp):
                raise core.Violation('initialised-from-wrong-source',
                                     f"{where}: Input fed by InitAsync = {got!r}, expected {exp!r}")
        ctx.count('successful_starts')
    else:
        ctx.count('failed_starts')
        if ok == 'first evaluation':
            ctx.count('first_eval_failures')
            if '#astop' in order:
                ctx.count('first_eval_failure_with_async_cleanup')
    # P6: wait bounded by the largest init_timeout
    timeouts = [b['ainit']['timeout'] for b in spec['blocks'] if b.get('ainit')]
    lib = spec.get('lib', {})
    if lib.get('valuepoll'):
        timeouts.append(lib['valuepoll']['timeout'])
    if lib.get('initasync'):
        timeouts.append(lib['initasync']['timeout'])
    limit = max([t for t in timeouts if t > 0] or [0.0])
    ctx.count('wait_bounded_checked')
    slack = 1.0 + 1e-6 if '#astop' in order and not success else 1e-6
    if res['t_wait'] > limit + slack:
        raise core.Violation('init-wait-exceeds-largest-timeout',
                             f"{where}: wait_init() took {res['t_wait']} s, largest init_timeout {limit}")
    if success and abs(res['t_wait'] - t_init) > 1e-6:
        raise core.Violation('init-wait-differs-from-model',
                             f"{where}: wait_init() took {res['t_wait']} s, model {t_init}")
    if res['pending']:
        raise core.Violation('task-left-after-shutdown', f"{where}: {res['pending']}")
    # counters
    for item in mlog:
        if item[1] == 'event':
            ctx.count('early_init_events')
        elif item[1] == 'restore':
            ctx.count('restored_blocks')
    for b in spec['blocks']:
        a = b.get('ainit')
        if a and (a['script'][0] == 'never' or a['script'][1] >= a['timeout']) and (b['name'], 'init_async') in mlog:
            ctx.count('async_timeouts')
        p = b.get('persist')
        if p and p['stored'] and p['expiration'] is not None and (b['name'], 'restore') not in mlog:
            ctx.count('expired_states')
    if lib.get('valuepoll'):
        ctx.count('valuepoll_cases')
    if lib.get('initasync'):
        ctx.count('initasync_cases')
    kinds = {i[1] for i in mlog}
    return success, len(kinds) >= 2


def run_case(case, ctx):
    spec = case['spec']
    names = [b['name'] for b in spec['blocks']] + case.get('extra', [])
    orders = list(itertools.permutations(names))
    maxorders = case.get('maxorders', 24)
    if len(orders) > maxorders:
        rng = ctx.rng('orders', core.case_hash(case))
        orders = rng.sample(orders, maxorders)
    verdicts = {}
    nontrivial = False
    for order in orders:
        order = list(order)
        hist, res = run_order(spec, order, ctx)
        try:
            success, nt = judge_order(spec, order, hist, res, ctx)
        except core.Violation as v:
            ctx.violation({'spec': spec, 'order': order, 'extra': case.get('extra', [])}, v.key, v.msg,
                          history=hist.dump(120))
            return True
        nontrivial = nontrivial or nt
        verdicts[tuple(order)] = success
    ctx.count('verdict_sets_compared')
    if len(set(verdicts.values())) > 1:
        good = next(o for o, v in verdicts.items() if v)
        bad = next(o for o, v in verdicts.items() if not v)
        ctx.violation({'spec': spec, 'order': list(bad), 'extra': case.get('extra', [])},
                      'start-verdict-depends-on-creation-order',
                      f"start succeeds with creation order {good} and fails with {bad}: {spec}")
    return nontrivial


def random_spec(rng, quick):
    n = rng.randint(2, 3 if quick else 4)
    names = [f"b{i}" for i in range(n)]
    blocks = []
    taus = [0.5, 1.0, 1.5, 2.0, 2.5, 3.5, 4.5]
    rng.shuffle(taus)
    # acyclic event graph: edges only from lower to higher rank in a random ranking
    rank = names[:]
    rng.shuffle(rank)
    dests = set()
    emits = {nm: {} for nm in names}
    pings = {nm: {} for nm in names}
    for i, src in enumerate(rank):
        for dst in rank[i + 1:]:
            # at most one sender per destination: the relative order of events from two
            # different blocks depends on the pass order, which the property does not fix
            if dst not in dests and rng.random() < 0.35:
                phase = rng.choice(['restore', 'init_async', 'init_regular', 'init_from_value'])
                if rng.random() < 0.3:
                    pings[src].setdefault(phase, []).append(dst)
                else:
                    emits[src].setdefault(phase, []).append(dst)
                dests.add(dst)
    for nm in names:
        b = {'name': nm, 'regular': rng.choice(['ok', 'ok', 'set', 'set'])}
        can_raise = nm not in dests
        if rng.random() < 0.45:
            b['persist'] = {'stored': rng.random() < 0.8,
                            'expiration': rng.choice([None, None, 0, -5, 50.0, 200.0]),
                            'script': rng.choice(['ok', 'ok', 'leave', 'raise'] if can_raise
                                                 else ['ok', 'ok', 'leave']),
                            'state': f"saved-{nm}"}
        if rng.random() < 0.5:
            kind = rng.choice(['ok', 'ok', 'leave', 'raise', 'never'])
            tau = taus.pop()
            timeout = rng.choice([tau + 0.25, tau + 3.0, 'short', 0, -1, 6.0])
            if timeout == 'short':
                # times out for sure: the simulator may wait longer than the block's own
                # init_timeout (documented), so 'completes a little after its timeout' is
                # legitimately either way and is not generated
                timeout = rng.choice([0.25, 0.75, 1.25])
                tau = 50.0 + tau
            b['ainit'] = {'script': [kind, tau], 'timeout': timeout}
        if rng.random() < 0.8:
            b['initdef'] = {'script': rng.choice(['ok', 'ok', 'ok', 'ok', 'ok', 'leave', 'raise'] if can_raise
                                                 else ['ok', 'ok', 'ok', 'leave']),
                            'value': f"def-{nm}"}
        if can_raise and rng.random() < 0.04:
            b['regular'] = 'raise'
        if rng.random() < 0.15:
            b['early'] = True
        em = {}
        for phase, ds in emits[nm].items():
            have = {'restore': 'persist', 'init_async': 'ainit', 'init_from_value': 'initdef'}.get(phase)
            if have is None or b.get(have):
                em[phase] = ds
        if em:
            b['emit'] = em
        pg = {}
        for phase, ds in pings[nm].items():
            have = {'restore': 'persist', 'init_async': 'ainit', 'init_from_value': 'initdef'}.get(phase)
            if have is None or b.get(have):
                pg[phase] = ds
        if pg:
            b['emit_ping'] = pg
        blocks.append(b)
    if len(names) >= 2 and rng.random() < 0.12:
        # directed: the last block of the ranking has no working init source of its own and
        # gets nothing but an early 'ping' (which makes its synchronous steps run early, but
        # does not initialise it): the start must fail whatever the creation order
        src, dst = rank[0], rank[-1]
        for b in blocks:
            for key in ('emit', 'emit_ping'):
                for phase in list(b.get(key, {})):
                    b[key][phase] = [d for d in b[key][phase] if d != dst]
            if b['name'] == dst:
                b.clear()
                b.update({'name': dst, 'regular': 'ok'})
                if rng.random() < 0.5:
                    b['initdef'] = {'script': 'leave', 'value': f"def-{dst}"}
            if b['name'] == src:
                # the ping is sent from the first pass (restore of the sender's saved state) or
                # from its asynchronous routine, i.e. before the second pass begins
                if rng.random() < 0.5:
                    b['persist'] = {'stored': True, 'expiration': None, 'script': 'ok',
                                    'state': f"saved-{src}"}
                    b.setdefault('emit_ping', {}).setdefault('restore', []).append(dst)
                else:
                    b.pop('persist', None)
                    b.pop('early', None)
                    b['ainit'] = {'script': ['ok', 0.75], 'timeout': 6.0}
                    b.setdefault('emit_ping', {}).setdefault('init_async', []).append(dst)
    spec = {'blocks': blocks, 'stop_time': rng.random() < 0.8, 'lib': {}}
    if rng.random() < 0.12:
        spec['stop_time'] = rng.choice(['str', 'int', 'bytes', 'none', 'list'])
    if rng.random() < 0.3:
        spec['konst'] = True
    stored = [b['name'] for b in blocks if b.get('persist') and b['persist']['stored']]
    if stored and rng.random() < 0.15:
        spec['read_fail'] = rng.choice(stored)
    extra = []
    r = rng.random()
    if r < 0.15:
        undef = rng.choice([0, 1, 3, 100])      # 100: no value before any timeout
        spec['lib']['valuepoll'] = {'undef': undef, 'interval': 0.7,
                                    'timeout': rng.choice([2.5, 5.0]) if undef < 100 else 0.5,
                                    'initdef': rng.random() < 0.6}
        extra.append('#vp')
        if rng.random() < 0.5:
            spec['lib']['valuepoll']['to_oa'] = True
            extra.append('#oa')
            if rng.random() < 0.5:
                spec['lib']['valuepoll']['to_oa'] = 'rp'
                extra.append('#rp')
        if rng.random() < 0.5:
            spec['lib']['valuepoll']['async_func'] = True
    elif r < 0.3:
        tau = rng.choice([0.3, 1.2, 60.0])
        spec['lib']['initasync'] = {'tau': tau, 'timeout': rng.choice([tau + 0.5, 5.0]) if tau < 60
                                    else 0.75}
        if rng.random() < 0.5:
            spec['lib']['initasync']['initdef'] = rng.choice([0, '', False, 'ia-default', 0.0])
        if tau < 60 and rng.random() < 0.4:
            spec['lib']['initasync']['fail'] = True
        extra += ['#ia', '#fed']
    r = rng.random()
    if r < 0.25:
        spec['calc'] = rng.choice(['raise', 'raise', 'undef', 'ok', 'ok', 'shutdown'])
        extra.append('#calc')
        if rng.random() < 0.6:
            extra.append('#astop')
    return {'spec': spec, 'extra': extra, 'maxorders': 24 if len(names) + len(extra) <= 4 else 12}


def gen(ctx):
    quick = ctx.tier == 'quick'
    rng = ctx.rng('gen')
    n = 120 if quick else 9000
    for _ in range(n):
        yield random_spec(rng, quick)


def run_shard(ctx):
    for case in gen(ctx):
        nontrivial = run_case(case, ctx)
        ctx.case_done(case, nontrivial, {'case': case} if len(ctx.samples) < 2 else None)


def replay(rep, ctx):
    case = rep['case']
    spec, order = case['spec'], case['order']
    hist, res = run_order(spec, order, ctx)
    try:
        judge_order(spec, order, hist, res, ctx)
    except core.Violation as v:
        ctx.violation(case, v.key, v.msg, history=hist.dump(120))
    ctx.case_done(case, True)
