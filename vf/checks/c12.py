"""
C12 - OutputAsync honours its mode for every arrival pattern.

Virtual-time history (put accepted / coroutine start, end, cancel / result events / output
changes / stop) + trace rules (exactly-once, ordering, conservation) + exact timing rules per
mode (valid on the VirtualLoop without injected latency).
"""

import asyncio
import itertools

from .. import core, harness, vloop

PROP = 'C12'
TECHNIQUE = ('runtime monitoring: virtual-time history of puts, coroutine runs, result events and output changes checked by exactly-once / ordering / causality rules and exact per-mode timing rules')
LEVEL = 'exploration'
RULE = ("case = (mode cancel/wait/start (long and abbreviated names), guard_time in {None, g}, "
        "stop_data present/absent, arrival pattern of <=4 puts at instants of a virtual time grid "
        "(simultaneous arrivals, arrivals during a run, at its end, during and at the end of the "
        "guard time), run duration per put from {0 (no await), yield, 1, 3}, failing runs, stop "
        "instant on the grid (before, between, during runs, long after), stop_timeout generous or "
        "too short); quick: exhaustive slice for <=3 arrivals on a 4-point grid, thorough: "
        "exhaustive <=3 arrivals on a 6-point grid + sampled 4 arrivals + seeded random patterns "
        "with injected latency; non-trivial = at least two puts competed (a run was cancelled, a "
        "put was discarded or had to wait) or a stop arrived with work pending")
ASSUMPTIONS = [
    "VirtualLoop without injected latency: a run for put p that is not discarded starts exactly at "
    "max(arrival(p), end(previous run) + guard_time) in wait/cancel mode and at arrival(p) in "
    "start mode; with injected latency only the inequalities (>=) are judged",
    "exact ties (arrival at the very instant a run ends) may resolve either way: the run counts "
    "as completed or as cancelled, both accepted",
    "stop_data counts as the newest event in cancel mode (it cancels the active run)",
    "the block's output counts a run from its start until the end of its guard time",
    "puts are counted as accepted when ExtEvent.send() returned normally; puts refused with "
    "EdzedInvalidState during/after the stop are not judged",
    "when pending work exceeds stop_timeout only 'stop bounded by stop_timeout (+ one "
    "uncancellable guard_time)' and 'nothing left behind' are judged",
]
REQUIRED = {'results_matched': 2000, 'cancelled_runs': 100, 'discarded_puts': 50,
            'waited_puts': 100, 'concurrent_runs': 50, 'guard_separations': 200,
            'stop_with_pending_work': 100, 'stop_data_last': 100, 'failing_runs': 100,
            'output_changes_checked': 2000, 'overlong_stop_bounded': 10,
            'stopped_before_initialisation': 6}
SHARDS = {'quick': 16, 'thorough': 16}
TIMEOUT = {'quick': 300, 'thorough': 3000}

EPS = 5e-9
GRID4 = [0.0, 0.5, 1.0, 2.0]
GRID6 = [0.0, 0.5, 1.0, 1.5, 2.0, 4.0]
DURS = [0, 'y', 1.0, 3.0]
GUARD = 1.0
STOP_DATA = {'value': 'STOP', 'sd': True}


class RunError(Exception):
    pass


def dur_of(d):
    return 0.0 if d in (0, 'y') else float(d)


def run_case(case, ctx):
    import edzed
    hist = core.History()
    state = {'accepted': {}, 'refused': []}
    puts = case['puts']         # list of [t, dur, fail]
    mode = case['mode']
    guard = case.get('guard')

    # how the event data reach the coroutine: positional 'value' only (default), 'value' and the
    # tuple-valued 'tag' item positionally, both as keywords, or mixed
    argstyle = case.get('argstyle')
    f_conf = {None: {}, 'args2': {'f_args': ('value', 'tag')},
              'kwargs': {'f_args': (), 'f_kwargs': ('value', 'tag')},
              'mixed': {'f_args': ['tag'], 'f_kwargs': ['value']}}[argstyle]
    stop_data = dict(STOP_DATA, tag=('t', 'STOP')) if argstyle else dict(STOP_DATA)
    state['stop_data'] = stop_data

    async def coro(*args, **kwargs):
        if argstyle is None:
            (value,) = args
        else:
            value, tag = {'args2': lambda a, b: (a, b), 'kwargs': lambda value, tag: (value, tag),
                          'mixed': lambda tag, value: (value, tag)}[argstyle](*args, **kwargs)
            if tag != ('t', value):
                hist.log('coro_wrong_args', value, tag)
        uid = value
        hist.log('coro_start', uid)
        if uid == 'STOP':
            dur, fail = case.get('stop_dur', 0), False
        else:
            _, dur, fail = puts[uid]
        try:
            if dur == 'y':
                await asyncio.sleep(0)
            elif dur:
                await asyncio.sleep(dur)
        except asyncio.CancelledError:
            hist.log('coro_cancelled', uid)
            raise
        if fail == 'cancel':
            # the coroutine itself ends with a CancelledError nobody in edzed asked for (e.g. it
            # awaited something that a third party cancelled): reported as cancelled, the block
            # goes on serving
            hist.log('coro_end', uid, 'selfcancel')
            raise asyncio.CancelledError()
        if fail:
            hist.log('coro_end', uid, 'err')
            raise RunError(uid)
        hist.log('coro_end', uid, 'ok')
        return ('ret', uid)

    def coro_callable(*args, **kwargs):
        value = kwargs['value'] if 'value' in kwargs else args[0] if argstyle != 'mixed' else None
        # a plain callable returning a coroutine (documented type of 'coro'): it may fail
        # already when it is called - a failed run like any other
        if value != 'STOP' and case.get('sync_raise') and puts[value][2]:
            hist.log('coro_start', value)
            hist.log('coro_end', value, 'err')
            raise RunError(value)
        return coro(*args, **kwargs)

    def build():
        class Res(edzed.SBlock):
            def init_regular(self):
                self.set_output(0)

            def _event(self, etype, data):
                hist.log('result', self.name, dict(data), state['oa'].output)
                return None

        class Out(edzed.SBlock):
            def init_regular(self):
                self.set_output(0)

            def _event(self, etype, data):
                hist.log('output', data.get('previous'), data.get('value'))
                return None
        ok, err, cnc, outp = Res('success'), Res('error'), Res('cancel'), Out('outp')
        kwargs = {}
        if guard is not None:
            kwargs['guard_time'] = case.get('guard_notation', guard)
        if case.get('stop_data'):
            kwargs['stop_data'] = dict(stop_data)
        def result_filter(data):
            # fault injection: the delivery of ONE run's result event fails inside the output
            # task (start mode only: there the failure stays within that task)
            put = data.get('put') or {}
            if put.get('value') == case.get('result_fault'):
                hist.log('result_fault', put.get('value'))
                raise RunError('vf: result event filter failed')
            return True
        oa = edzed.OutputAsync(
            'oa', coro=coro_callable if case.get('sync_raise') else coro,
            mode=case.get('mode_name', mode),
            on_success=edzed.Event(ok, efilter=result_filter if 'result_fault' in case else None),
            on_error=edzed.Event(err), on_cancel=edzed.Event(cnc),
            on_output=edzed.Event(outp), stop_timeout=case.get('stop_timeout', 100), **f_conf,
            **kwargs)
        state['oa'] = oa
        for k, (work, tmo) in enumerate(case.get('neighbours', ())):
            # other blocks with asynchronous clean-up (longer time-outs, stopped concurrently):
            # every block has its own stop_timeout, measured from the common start of the stop
            class Neighbour(edzed.AddonAsync, edzed.SBlock):
                def init_regular(self):
                    self.set_output(0)

                async def stop_async(self, work=work):
                    await asyncio.sleep(work)
            Neighbour(f"nb{k}", stop_timeout=tmo)
        return {'oa': oa}

    async def drive(sim, objs):
        loop = asyncio.get_running_loop()
        t0 = loop.time()
        state['t0'] = t0
        oa = objs['oa']

        def fire(uid):
            data = {'uid': uid, 'tag': ('t', uid)}
            try:
                hist.log('put_call', uid)
                ret = edzed.ExtEvent(oa, 'put', source=f"app{uid}").send(uid, **data)
                hist.log('put_ret', uid, ret)
                state['accepted'][uid] = {'uid': uid, 'tag': ('t', uid), 'value': uid,
                                          'source': f"_ext_app{uid}"}
            except edzed.EdzedInvalidState:
                hist.log('put_refused', uid)
                state['refused'].append(uid)
            except Exception as err:    # pylint: disable=broad-except
                hist.log('put_exc', uid, repr(err))

        for uid, (t, _dur, _fail) in enumerate(puts):
            loop.call_at(t0 + t, fire, uid)
        await asyncio.sleep(case['stop'])
        state['alive_before_stop'] = sim.alive()
        hist.log('stop_called')

    async def preinit_main(loop):
        # the simulation is stopped while another block is still in its asynchronous
        # initialisation: the OutputAsync block was started but never initialised
        edzed.reset_circuit()
        build()
        if case.get('init_shutdown'):
            # a block requests the shutdown from inside the simulation task during the
            # synchronous initialisation (its initdef makes it send a 'shutdown' control event):
            # nothing raises, nothing is awaited before the clean-up begins
            edzed.Input('trig', initdef=1, on_output=edzed.Event('_ctrl', 'shutdown'))
            ctx.count('shutdown_requested_during_sync_init')
            sim = harness.Sim()
            state['sim'] = sim
            state['t0'] = loop.time()
            state['alive_before_stop'] = True
            state['output_before_stop'] = None
            hist.log('stop_called')
            sim.task = asyncio.create_task(sim.circuit.run_forever(), name='vf: simtask')
            try:
                await sim.task
            except BaseException:   # pylint: disable=broad-except
                pass
            return

        class Slow(edzed.AddonAsync, edzed.SBlock):
            async def init_async(self):
                await asyncio.sleep(5.0)
                self.set_output(1)
        Slow('slow', init_timeout=9)
        if case.get('persist'):
            # persistent storage + a persistent block that is still uninitialised (it waits
            # for its first value) at the moment of the stop: its state cannot be saved
            edzed.Input('pwait', persistent=True)
            edzed.Timer('ptimer', persistent=True)
            edzed.get_circuit().set_persistent_data(harness.Storage())
            ctx.count('stopped_with_unsaveable_persistent_blocks')
        sim = harness.Sim()
        state['sim'] = sim
        state['t0'] = loop.time()
        sim.task = asyncio.create_task(sim.circuit.run_forever(), name='vf: simtask')
        await asyncio.sleep(case['stop'])
        state['alive_before_stop'] = sim.alive()
        state['output_before_stop'] = state['oa'].output
        hist.log('stop_called')
        await sim.stop()

    async def run_main(loop):
        # the circuit is run by edzed.run() with a supporting coroutine; the stop is requested
        # from elsewhere (as SIGTERM or a 'shutdown' event would) and the supporting coroutine
        # ends a little later, while the clean-up is in progress
        edzed.reset_circuit()
        objs = build()
        circuit = edzed.get_circuit()
        sim = harness.Sim()
        state['sim'] = sim

        async def supporting():
            await asyncio.sleep(case['stop'] + 0.25)
            hist.log('supporting_task_ends')
        sim.task = asyncio.create_task(edzed.run(supporting()), name='vf: runtask')
        await asyncio.sleep(0)      # run() creates the simulation task ...
        await asyncio.sleep(0)      # ... which registers itself when it begins to run
        await circuit.wait_init()
        await drive(sim, objs)
        circuit.abort(asyncio.CancelledError('vf: stop requested'))
        try:
            await sim.task
        except BaseException as err:    # pylint: disable=broad-except
            state['run_exc'] = err

    def setup(loop):
        hist.loop = loop
        lat = case.get('latency')
        if lat:
            rng = ctx.rng('lat', core.case_hash(case))
            loop.latency = lambda: rng.random() * lat

    if case.get('via_run'):
        ctx.count('run_with_supporting_task_ending_during_cleanup')
        loop, _r, exc = vloop.run(run_main, setup=setup, drain=30.0)
        edzed.reset_circuit()
        out = {'loop': loop, 'started': True, 'exc': exc or state.get('run_exc'),
               'sim': state['sim']}
    elif case.get('preinit_stop'):
        loop, _r, exc = vloop.run(preinit_main, setup=setup, drain=30.0)
        edzed.reset_circuit()
        out = {'loop': loop, 'started': True, 'exc': exc, 'sim': state['sim']}
    else:
        out = harness.run_sim(build, drive, drain=30.0, setup=setup)
    loop = out['loop']
    state['started'] = out['started']
    state['error'] = out['sim'].circuit.error
    state['exc'] = out['exc']
    state['stop_returned_vt'] = loop.after_main['vt']
    state['after_tasks'] = [t.get_name() for t in loop.after_main['tasks'] if loop.task_is_edzed(t)]
    state['final_output'] = state['oa'].output
    state['exc_log'] = loop.exc_log
    return hist, state


def judge(case, hist, state, ctx):
    mode = case['mode']
    guard = case.get('guard') or 0.0
    lat = case.get('latency') or 0.0
    exact = not lat
    puts = case['puts']
    where = (f"mode={mode} guard={case.get('guard')} stop_data={bool(case.get('stop_data'))} "
             f"puts={puts} stop={case['stop']} stop_timeout={case.get('stop_timeout', 100)}")
    if not state['started'] or state['exc'] is not None:
        raise core.Violation('run-failed', f"{where}: started={state['started']} exc={state['exc']!r} "
                             f"error={state['error']!r}")
    if not state.get('alive_before_stop') or not isinstance(state['error'], asyncio.CancelledError):
        raise core.Violation('simulation-aborted', f"{where}: simulation ended with {state['error']!r}")
    t0 = state['t0']
    E = hist.entries
    if case.get('argstyle'):
        where += f" f_args/f_kwargs={case['argstyle']}"
        ctx.count('runs_with_several_or_keyword_arguments')
        bad = next((e for e in E if e[2] == 'coro_wrong_args'), None)
        if bad is not None:
            raise core.Violation('wrong-coroutine-arguments',
                                 f"{where}: the coroutine got value={bad[3]!r} tag={bad[4]!r}")
    stop_seq, stop_vt = next(((e[0], e[1]) for e in E if e[2] == 'stop_called'))
    stop_ret = state['stop_returned_vt']
    accepted = state['accepted']
    overlong = case.get('overlong', False)
    # ---- collect ----
    arrival = {}
    for e in E:
        if e[2] == 'put_ret':
            arrival[e[3]] = e[1]
            if e[4] is not None:
                raise core.Violation('put-returned-value', f"{where}: put returned {e[4]!r}")
        elif e[2] == 'put_exc':
            raise core.Violation('put-raised', f"{where}: put {e[3]} raised {e[4]}")
    starts, ends = {}, {}       # uid -> (seq, vt) ; uid -> (seq, vt, outcome)
    order_started = []
    for e in E:
        if e[2] == 'coro_start':
            if e[3] in starts:
                raise core.Violation('put-run-twice', f"{where}: coroutine started twice for {e[3]!r}")
            starts[e[3]] = (e[0], e[1])
            order_started.append(e[3])
        elif e[2] == 'coro_end':
            ends[e[3]] = (e[0], e[1], e[4])
        elif e[2] == 'coro_cancelled':
            ends[e[3]] = (e[0], e[1], 'cancelled')
    results = {}
    last_result = None
    for e in E:
        if e[2] != 'result':
            continue
        kind, data = e[3], e[4]
        put = data.get('put')
        uid = put.get('value') if isinstance(put, dict) else None
        if uid in results:
            raise core.Violation('duplicate-result-event',
                                 f"{where}: put {uid!r} got {results[uid][0]} and then {kind}")
        results[uid] = (kind, e[0], e[1], data)
        last_result = uid
        if data.get('trigger') != kind or data.get('source') != 'oa':
            raise core.Violation('wrong-result-data', f"{where}: {kind} event data {data!r}")
        exp_put = dict(state['stop_data']) if uid == 'STOP' else accepted.get(uid)
        if put != exp_put:
            raise core.Violation('wrong-result-data',
                                 f"{where}: {kind} event carries put={put!r}, original {exp_put!r}")
        if kind == 'success' and data.get('value') != ('ret', uid):
            raise core.Violation('wrong-result-data', f"{where}: success value {data.get('value')!r}")
        if kind == 'error' and not isinstance(data.get('error'), RunError):
            raise core.Violation('wrong-result-data', f"{where}: error item {data.get('error')!r}")
    # ---- after the stop: nothing happens, nothing is left ----
    late = [e for e in E if e[1] > stop_ret + EPS and e[2] != 'put_refused' and e[2] != 'put_call']
    if late:
        raise core.Violation('activity-after-stop',
                             f"{where}: {late[0][2:5]} at {late[0][1] - t0} after the stop returned "
                             f"at {stop_ret - t0}")
    if state['after_tasks']:
        raise core.Violation('leftover-task', f"{where}: pending after stop: {state['after_tasks']}")
    # the guard time is documented as uncancellable: a stop time-out that fires during a
    # guard sleep takes effect when the sleep is over
    if stop_ret - stop_vt > case.get('stop_timeout', 100) + guard + EPS + 10 * lat:
        raise core.Violation('stop-not-bounded',
                             f"{where}: stop took {stop_ret - stop_vt} s, stop_timeout "
                             f"{case.get('stop_timeout', 100)}")
    if case.get('preinit_stop'):
        ctx.count('stopped_before_initialisation')
    if overlong:
        ctx.count('overlong_stop_bounded')
        if state['final_output'] != 0:
            raise core.Violation('output-not-zero-when-idle',
                                 f"{where}: output {state['final_output']} after the (timed out) stop")
        return True
    # ---- R1: exactly one result per accepted put ----
    faulted = {e[3] for e in E if e[2] == 'result_fault'}
    if faulted:
        ctx.count('result_event_faults')
    for uid in accepted:
        if uid in faulted:
            continue        # its (only) result event was consumed by the injected fault
        if uid not in results:
            raise core.Violation(
                'put-without-result',
                f"{where}: accepted put {uid} (at {arrival[uid] - t0}) got no result event; "
                f"started={uid in starts} ended={ends.get(uid)}")
        ctx.count('results_matched')
    for uid in results:
        if uid != 'STOP' and uid not in accepted:
            raise core.Violation('result-for-unknown-put', f"{where}: result for {uid!r}")
    if case.get('stop_data'):
        if 'STOP' not in results or 'STOP' not in starts:
            raise core.Violation('stop-data-not-processed', f"{where}: results={list(results)}")
        if last_result != 'STOP' or order_started[-1] != 'STOP':
            raise core.Violation('stop-data-not-last',
                                 f"{where}: last result {last_result!r}, coroutine order {order_started}")
        if results['STOP'][0] != 'success':
            raise core.Violation('stop-data-not-completed', f"{where}: {results['STOP'][0]}")
        later = [u for u, (s, _t) in starts.items() if s > starts['STOP'][0]]
        unfinished = [u for u, en in ends.items() if u != 'STOP' and en[0] > starts['STOP'][0]]
        if later or unfinished:
            raise core.Violation('stop-data-not-last', f"{where}: {later} {unfinished} after stop_data")
        ctx.count('stop_data_last')
    elif 'STOP' in results or 'STOP' in starts:
        raise core.Violation('unexpected-stop-data', f"{where}")
    # result kind and time match the coroutine's fate
    for uid, (kind, seq, vt, data) in results.items():
        if uid in ends:
            outcome = ends[uid][2]
            exp_kind = {'ok': 'success', 'err': 'error', 'cancelled': 'cancel',
                        'selfcancel': 'cancel'}[outcome]
            if outcome == 'selfcancel':
                ctx.count('runs_ending_with_their_own_cancellederror')
            if kind != exp_kind:
                raise core.Violation('result-kind-mismatch',
                                     f"{where}: put {uid!r} coroutine {outcome}, reported {kind}")
            if abs(vt - ends[uid][1]) > EPS + lat:
                raise core.Violation('result-late',
                                     f"{where}: put {uid!r} ended at {ends[uid][1] - t0}, reported at {vt - t0}")
            if outcome == 'err':
                ctx.count('failing_runs')
        elif uid in starts:
            raise core.Violation('run-never-ended', f"{where}: coroutine of {uid!r} neither ended "
                                 "nor was cancelled")
        elif kind != 'cancel':
            raise core.Violation('result-kind-mismatch',
                                 f"{where}: put {uid!r} was never started but reported {kind}")
    nontrivial = False
    seq_of_arrival = sorted(accepted, key=lambda u: arrival[u])     # stable: uid order at ties
    started = [u for u in order_started]
    runs = [(u, starts[u][1], ends[u][1], ends[u][2]) for u in started]
    stop_pending = any(en[1] > stop_vt + EPS for en in ends.values()) or any(
        s[1] > stop_vt + EPS for s in starts.values())
    if stop_pending:
        ctx.count('stop_with_pending_work')
        nontrivial = True

    def arr(u):
        return stop_vt if u == 'STOP' else arrival[u]

    if mode == 'start':
        for u, s, e, outcome in runs:
            if outcome == 'cancelled':
                raise core.Violation('start-mode-cancelled-run', f"{where}: run {u!r} cancelled")
            if u != 'STOP' and (s < arr(u) - EPS or (exact and s > arr(u) + EPS)):
                raise core.Violation('start-mode-not-started-at-once',
                                     f"{where}: put {u} arrived {arr(u) - t0}, started {s - t0}")
        for (u1, s1, e1, _o1), (u2, s2, e2, _o2) in itertools.combinations(runs, 2):
            if s2 < e1 - EPS and s1 < e2 - EPS:
                ctx.count('concurrent_runs')
                nontrivial = True
        if set(started) - {'STOP'} != set(accepted):
            raise core.Violation('put-never-run', f"{where}: started {started}, accepted {list(accepted)}")
    else:
        # one at a time, separated by the guard time
        for (u1, s1, e1, o1), (u2, s2, e2, o2) in zip(runs, runs[1:]):
            if s2 < e1 + guard - EPS:
                raise core.Violation(
                    'guard-time-violated' if s2 >= e1 - EPS else 'overlapping-runs',
                    f"{where}: run {u1!r} ended {e1 - t0} ({o1}), run {u2!r} started {s2 - t0}, "
                    f"guard_time {guard}")
            if guard:
                ctx.count('guard_separations')
        # exact start instants
        prev_end = None
        for u, s, e, outcome in runs:
            due = arr(u) if prev_end is None else max(arr(u), prev_end + guard)
            if s < due - EPS or (exact and s > due + EPS):
                raise core.Violation('run-started-off-time',
                                     f"{where}: run {u!r} started at {s - t0}, due at {due - t0} "
                                     f"(arrival {arr(u) - t0}, previous end {None if prev_end is None else prev_end - t0})")
            if prev_end is not None and arr(u) < prev_end + guard - EPS:
                ctx.count('waited_puts')
                nontrivial = True
            prev_end = e
        if mode == 'wait':
            if [u for u in started if u != 'STOP'] != seq_of_arrival:
                raise core.Violation('wait-mode-order',
                                     f"{where}: run order {started}, arrival order {seq_of_arrival}")
            canc = [u for u, (k, *_r) in results.items() if k == 'cancel'
                    and not (u in ends and ends[u][2] == 'selfcancel')]
            if canc:
                raise core.Violation('wait-mode-cancelled', f"{where}: cancelled {canc}")
        else:   # cancel mode
            newest_first = seq_of_arrival + (['STOP'] if case.get('stop_data') else [])
            for u, s, e, outcome in runs:
                if outcome == 'cancelled':
                    ctx.count('cancelled_runs')
                    nontrivial = True
                    newer = [n for n in newest_first if newest_first.index(n) > newest_first.index(u)
                             and arr(n) <= e + EPS]
                    if not newer:
                        raise core.Violation(
                            'cancelled-without-newer-event',
                            f"{where}: run {u!r} cancelled at {e - t0} but no newer event had arrived")
                    if exact and not any(abs(arr(n) - e) <= EPS for n in newer):
                        raise core.Violation(
                            'cancelled-off-time',
                            f"{where}: run {u!r} cancelled at {e - t0}, newer arrivals at "
                            f"{[arr(n) - t0 for n in newer]}")
            for u in accepted:
                if u in starts:
                    continue
                ctx.count('discarded_puts')
                nontrivial = True
                kind, seq, vt, data = results[u]
                newer = [n for n in newest_first if newest_first.index(n) > newest_first.index(u)
                         and arr(n) <= vt + EPS]
                if not newer:
                    raise core.Violation('discarded-without-newer-event',
                                         f"{where}: put {u} discarded at {vt - t0} without a newer event")
            # the most recent event runs to completion
            if newest_first:
                last = newest_first[-1]
                if last not in starts or ends[last][2] == 'cancelled':
                    raise core.Violation('most-recent-event-not-completed',
                                         f"{where}: newest event {last!r}: started={last in starts}, "
                                         f"fate={ends.get(last)}")
    # ---- output = number of active runs (start .. end + guard) ----
    deltas = {}
    for u, s, e, _o in runs:
        deltas[round(s, 7)] = deltas.get(round(s, 7), 0) + 1
        deltas[round(e + guard, 7)] = deltas.get(round(e + guard, 7), 0) - 1
    seen = {}
    level = 0
    for e in E:
        if e[2] == 'output':
            prev, val = e[3], e[4]
            if prev is not None and not isinstance(prev, int):
                prev = 0    # UNDEF -> 0 at init
            if e[3] is None or not isinstance(e[3], int):
                continue
            ctx.count('output_changes_checked')
            if val < 0 or (mode != 'start' and val > 1):
                raise core.Violation('output-out-of-range', f"{where}: output {val}")
            if abs(val - prev) != 1:
                raise core.Violation('output-jump', f"{where}: output {prev} -> {val}")
            seen[round(e[1], 7)] = seen.get(round(e[1], 7), 0) + (val - prev)
            level = val
    if exact:
        for t in set(deltas) | set(seen):
            if deltas.get(t, 0) != seen.get(t, 0):
                raise core.Violation(
                    'output-not-number-of-active-runs',
                    f"{where}: at t={t - t0:.6f} the output changed by {seen.get(t, 0)}, the number of "
                    f"active runs (start..end+guard) by {deltas.get(t, 0)}")
    never_ran = case.get('preinit_stop') and not case.get('stop_data')
    if state['final_output'] != 0 and not never_ran:
        # (a block that was never initialised and had nothing to run keeps its undefined output)
        raise core.Violation('output-not-zero-when-idle', f"{where}: final output {state['final_output']}")
    for e in E:
        if e[2] == 'result':
            # runs started before this result event (log order), still within end + guard
            sq = e[0]
            lo = sum(1 for u, s, en, _o in runs if starts[u][0] < sq and e[1] < en + guard - EPS)
            hi = sum(1 for u, s, en, _o in runs if starts[u][0] < sq and e[1] <= en + guard + EPS)
            if exact and not lo <= e[5] <= hi:
                raise core.Violation('output-not-number-of-active-runs',
                                     f"{where}: output {e[5]} at {e[1] - t0}, active runs {lo}..{hi}")
    return nontrivial or len(accepted) >= 2


def run_one(case, ctx, enumerated=False):
    hist, state = run_case(case, ctx)
    try:
        nontrivial = judge(case, hist, state, ctx)
    except core.Violation as v:
        ctx.violation(case, v.key, v.msg, history=[
            (e[0], None if e[1] is None else round(e[1] - state.get('t0', 0), 6)) + tuple(e[2:])
            for e in hist.entries[:150]])
        ctx.case_done(case, True)
        return
    sample = None
    if nontrivial and len(ctx.samples) < ctx.MAX_SAMPLES:
        sample = {'case': case, 'history': [
            (e[0], round(e[1] - state['t0'], 6)) + tuple(e[2:]) for e in hist.entries[:40]]}
    ctx.case_done(case, nontrivial, sample, enumerated=enumerated)


MODE_NAMES = {'cancel': ['cancel', 'c'], 'wait': ['wait', 'w'], 'start': ['start', 's']}


def run_early_put(case, ctx):
    """
    A 'put' that reaches the output block at the very beginning of the initialisation (an
    external event right after the start of the simulation task, or the on_output event of a
    block restored from saved state) while another block keeps the initialisation phase open:
    the output is the number of active runs at every sampled instant and 0 when idle.
    """
    import edzed
    mode, how, dur = case['mode'], case['how'], case['dur']
    active = [0]
    samples = []
    results = []

    def build():
        async def work(value):
            active[0] += 1
            samples.append((f"start {value}", oa.output, active[0]))
            try:
                await asyncio.sleep(dur)
            finally:
                active[0] -= 1
            return value

        async def slow_init():
            await asyncio.sleep(case['init'])
            return 'ready'

        class Res(edzed.SBlock):
            def init_regular(self):
                self.set_output(0)

            def _event(self, etype, data):
                results.append((self.name, (data.get('put') or {}).get('value')))
        Res('success'), Res('error'), Res('cancel')
        if how == 'restored':
            # created BEFORE the output block: restores its state and sends it first
            edzed.Input('inp', persistent=True, initdef='default', on_output=edzed.Event('oa'))
        oa = edzed.OutputAsync('oa', coro=work, mode=mode, stop_timeout=20,
                               on_success=edzed.Event('success'), on_error=edzed.Event('error'),
                               on_cancel=edzed.Event('cancel'))
        if how == 'restored_after':
            edzed.Input('inp', persistent=True, initdef='default', on_output=edzed.Event('oa'))
        edzed.InitAsync('ini', init_coro=[slow_init], init_timeout=10.0)
        return oa

    async def main(loop):
        edzed.reset_circuit()
        oa = build()
        circuit = edzed.get_circuit()
        if how != 'ext':
            circuit.set_persistent_data({"<Input 'inp'>": 'saved', 'edzed-stop-time': 0.0})
        simtask = asyncio.create_task(circuit.run_forever())
        await asyncio.sleep(0)
        nputs = 1
        if how == 'ext':
            if not circuit.is_ready():
                raise core.Inconclusive("C12: circuit not ready right after the start")
            edzed.ExtEvent(oa).send('early')
        await circuit.wait_init()
        samples.append(('initialised', oa.output, active[0]))
        for k in range(3):
            await asyncio.sleep(dur / 2)
            samples.append((f"+{k + 1} half run(s)", oa.output, active[0]))
        edzed.ExtEvent(oa).send('second')
        nputs += 1
        await asyncio.sleep(dur / 2)
        samples.append(('second run in progress', oa.output, active[0]))
        await asyncio.sleep(dur)
        samples.append(('idle after the second run', oa.output, active[0]))
        await circuit.shutdown()
        try:
            await simtask
        except asyncio.CancelledError:
            pass
        samples.append(('stopped', oa.output, active[0]))
        return nputs

    loop, nputs, exc = vloop.run(main)
    edzed.reset_circuit()
    where = f"early put, {case}"
    if isinstance(exc, core.Inconclusive):
        raise exc
    if exc is not None:
        raise core.Violation('harness-run-exception', f"{where}: {exc!r}")
    ctx.count('early_put_cases')
    ctx.count('output_changes_checked', len(samples))
    bad = [smp for smp in samples if smp[1] != smp[2]]
    if bad:
        raise core.Violation(
            'output-not-active-count',
            f"{where}: (instant, output, active runs) {bad[:4]} of {samples}")
    if len(results) != nputs:
        raise core.Violation('put-without-result',
                             f"{where}: {nputs} puts, results {results}")
    ctx.count('results_matched', len(results))


def run_noargs(case, ctx):
    """
    An output coroutine that takes no event data at all (f_args=(), f_kwargs=()): puts are
    delivered directly (SBlock.event('put'), the way another block's code would do it) with no
    data items, via an Event (source item only) or via ExtEvent.  Every accepted put = one
    result; nothing distinguishes the runs, so they are counted.
    """
    import edzed
    mode, times, dur, how = case['mode'], case['times'], case['dur'], case['how']
    log = {'starts': 0, 'ends': 0, 'cancelled': 0, 'results': [], 'accepted': 0, 'outputs': []}

    async def coro():
        log['starts'] += 1
        try:
            await asyncio.sleep(dur)
        except asyncio.CancelledError:
            log['cancelled'] += 1
            raise
        log['ends'] += 1
        return 'done'

    def build():
        class Res(edzed.SBlock):
            def init_regular(self):
                self.set_output(0)

            def _event(self, etype, data):
                log['results'].append((self.name, dict(data.get('put') or {})))
        ok, err, cnc = Res('success'), Res('error'), Res('cancel')
        oa = edzed.OutputAsync('oa', coro=coro, f_args=(), mode=mode, on_success=edzed.Event(ok),
                               on_error=edzed.Event(err), on_cancel=edzed.Event(cnc),
                               stop_timeout=50)
        trig = edzed.Input('trig', initdef=0, on_every_output=edzed.Event(oa, 'put', efilter=(
            edzed.not_from_undef, edzed.DataEdit.permit('source'))))
        return {'oa': oa, 'trig': trig}

    async def drive(sim, objs):
        loop = asyncio.get_running_loop()
        t0 = loop.time()
        oa = objs['oa']

        def fire(k):
            try:
                if how == 'direct':
                    oa.event('put')
                elif how == 'event':
                    edzed.ExtEvent(objs['trig']).send(k)
                else:
                    edzed.ExtEvent(oa).send()
                log['accepted'] += 1
            except Exception as exc:    # pylint: disable=broad-except
                log.setdefault('put_exc', []).append(repr(exc))
        for k, t in enumerate(times):
            loop.call_at(t0 + t, fire, k)
        await asyncio.sleep(times[-1] + 4 * dur * len(times) + 1.0)
        log['output_when_idle'] = oa.output
        log['alive'] = sim.alive()
        return True
    out = harness.run_sim(build, drive)
    where = f"no-argument coroutine, {case}"
    if out['exc'] is not None or not out['started']:
        raise core.Violation('harness-run-exception', f"{where}: {out['exc']!r} {out['sim'].init_exc!r}")
    ctx.count('noargs_puts', log['accepted'])
    if log.get('put_exc') or not log['alive']:
        raise core.Violation('put-not-accepted', f"{where}: {log.get('put_exc')}, simulation alive: "
                             f"{log['alive']}, error {out['sim'].circuit.error!r}")
    if len(log['results']) != log['accepted']:
        raise core.Violation(
            'put-without-result',
            f"{where}: {log['accepted']} puts accepted, {len(log['results'])} result events "
            f"{[r[0] for r in log['results']]}; runs started {log['starts']}, finished {log['ends']}")
    if mode in ('wait', 'start') and (log['ends'] != log['accepted'] or log['cancelled']):
        raise core.Violation(
            'run-missing', f"{where}: {log['accepted']} puts, {log['ends']} runs completed, "
            f"{log['cancelled']} cancelled")
    if mode == 'cancel' and not any(r[0] == 'success' for r in log['results'][-1:]):
        raise core.Violation('last-put-not-completed', f"{where}: results {log['results']}")
    if log['output_when_idle'] != 0:
        raise core.Violation('output-not-zero-when-idle', f"{where}: output {log['output_when_idle']!r}")
    ctx.count('results_matched', len(log['results']))


def gen(ctx):
    quick = ctx.tier == 'quick'
    grid = GRID4 if quick else GRID6
    stride = 5 if quick else 1
    idx = 0
    for n in (1, 2, 3):
        for times in itertools.combinations_with_replacement(grid, n):
            for durs in itertools.product(DURS, repeat=n):
                for mode in ('cancel', 'wait', 'start'):
                    for guard in (None, GUARD):
                        if mode == 'start' and guard:
                            continue
                        idx += 1
                        if (idx // ctx.nshards) % stride or idx % ctx.nshards != ctx.shard:
                            continue
                        k = idx // (ctx.nshards * stride)
                        stops = [times[-1] + 0.25, times[-1] + 1.0, times[0] + 0.75, 12.0,
                                 times[-1], times[-1] + dur_of(durs[-1])]
                        case = {'mode': mode, 'guard': guard, 'stop_data': bool(k & 1),
                                'puts': [[t, d, (k + i) % 5 == 0] for i, (t, d) in enumerate(zip(times, durs))],
                                'stop': stops[k % len(stops)] + (k % 7 == 0) * 0.0}
                        if case['stop'] <= 0:
                            case['stop'] = 0.25
                        if k % 4 == 1:
                            case['mode_name'] = MODE_NAMES[mode][1]
                        if guard and k % 3 == 1:
                            case['guard_notation'] = '1s'
                        if case['stop_data'] and k % 5 == 2:
                            case['stop_dur'] = 1.0
                        if k % 6 == 3:
                            case['sync_raise'] = True
                        if k % 5 == 4:
                            case['argstyle'] = ('args2', 'kwargs', 'mixed')[k % 3]
                        yield case, True
    for mode in ('cancel', 'wait', 'start'):
        for sd in (True, False):
            for stop in (0.5, 1.0, 2.5):
                idx += 1
                if idx % ctx.nshards == ctx.shard:
                    yield {'mode': mode, 'guard': None, 'stop_data': sd, 'puts': [], 'stop': stop,
                           'preinit_stop': True, 'stop_dur': 1.0 if stop == 1.0 else 0}, True
                    yield {'mode': mode, 'guard': None, 'stop_data': sd, 'puts': [], 'stop': stop,
                           'preinit_stop': True, 'stop_dur': 1.0 if stop == 1.0 else 0,
                           'persist': True}, True
                    yield {'mode': mode, 'guard': None, 'stop_data': sd, 'puts': [], 'stop': stop,
                           'preinit_stop': True, 'stop_dur': 1.0 if stop == 1.0 else 0,
                           'init_shutdown': True}, True
    # pending work that fits into the block's own stop_timeout only just, next to two other
    # blocks whose (longer) asynchronous clean-up is awaited first
    for mode in ('wait', 'cancel', 'start'):
        for work, tmo in ((2.0, 2.0), (1.5, 1.75), (2.9, 3.0)):
            idx += 1
            if idx % ctx.nshards == ctx.shard:
                yield {'mode': mode, 'guard': None, 'stop_data': False,
                       'puts': [[0.25, work, False]], 'stop': 0.5, 'stop_timeout': tmo,
                       'neighbours': [[0.5 * work, 10.0], [0.6 * work, 5.0]]}, True
    rng = ctx.rng('random')
    nrand = 800 if quick else 60000
    for i in range(nrand):
        n = rng.randint(2, 4)
        times = sorted(rng.choice(GRID6 + [0.25, 1.0, 3.0]) for _ in range(n))
        mode = rng.choice(['cancel', 'cancel', 'wait', 'start'])
        guard = rng.choice([None, GUARD]) if mode != 'start' else None
        case = {'mode': mode, 'guard': guard, 'stop_data': rng.random() < 0.5,
                'puts': [[t, rng.choice(DURS), rng.random() < 0.2] for t in times],
                'stop': rng.choice([times[-1] + 0.25, times[-1] + 1.5, 14.0, times[0] + 0.5])}
        if rng.random() < 0.2:
            case['sync_raise'] = True
        if guard is None and rng.random() < 0.25:
            u = rng.randrange(len(case['puts']))
            case['puts'][u][1] = 0.25
            case['puts'][u][2] = 'cancel'
        if mode == 'start' and rng.random() < 0.3:
            ok_uids = [u for u, p in enumerate(case['puts']) if not p[2]]
            if ok_uids:
                case['result_fault'] = rng.choice(ok_uids)
        if rng.random() < 0.15:
            case['via_run'] = True
        if rng.random() < 0.3:
            case['argstyle'] = rng.choice(['args2', 'kwargs', 'mixed'])
        r = rng.random()
        if r < 0.2:
            case['latency'] = rng.choice([1e-4, 2e-3])
        elif r < 0.3:
            # pending work longer than the stop timeout
            case['stop_timeout'] = 2.0
            case['overlong'] = True
            case['puts'] = [[t, 5.0, False] for t in times]
            case['stop'] = times[-1] + 0.5
            if guard:
                case['guard'] = 1.0
        yield case, False


def run_shard(ctx):
    for case, enumerated in gen(ctx):
        run_one(case, ctx, enumerated)
    idx = 0
    for mode in ('wait', 'cancel', 'start'):
        for how in ('direct', 'event', 'ext'):
            for times in ([0.25], [0.25, 0.25], [0.25, 0.5, 2.0], [0.0, 0.25, 0.3, 0.35]):
                idx += 1
                if idx % ctx.nshards != ctx.shard:
                    continue
                case = {'noargs': True, 'mode': mode, 'how': how, 'times': times, 'dur': 0.5}
                try:
                    run_noargs(case, ctx)
                except core.Violation as v:
                    ctx.violation(case, v.key, v.msg)
                ctx.case_done(case, True, None, enumerated=True)
        for how in ('ext', 'restored', 'restored_after'):
            for init, dur in ((0.25, 1.0), (2.0, 0.5), (0.5, 0.5)):
                idx += 1
                if idx % ctx.nshards != ctx.shard:
                    continue
                case = {'early_put': True, 'mode': mode, 'how': how, 'init': init, 'dur': dur}
                try:
                    run_early_put(case, ctx)
                except core.Violation as v:
                    ctx.violation(case, v.key, v.msg)
                ctx.case_done(case, True, None, enumerated=True)
    ctx.exhaustive = True


def replay(rep, ctx):
    if rep['case'].get('early_put'):
        try:
            run_early_put(rep['case'], ctx)
        except core.Violation as v:
            ctx.violation(rep['case'], v.key, v.msg)
        ctx.case_done(rep['case'], True)
        return
    if rep['case'].get('noargs'):
        try:
            run_noargs(rep['case'], ctx)
        except core.Violation as v:
            ctx.violation(rep['case'], v.key, v.msg)
        ctx.case_done(rep['case'], True)
        return
    run_one(rep['case'], ctx)
