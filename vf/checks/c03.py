"""
C03 - an FSM follows its transition table and runs its actions in the documented order.

History + executable reference model (interpreter written from docs/FSM.rst).  FSM classes are
generated with type(); every callback and every probe destination logs into one ordered history.
"""

import itertools
import random

from .. import core, harness, vloop

PROP = 'C03'
TECHNIQUE = ('runtime monitoring: recorded callback/event history of generated FSM classes compared with a reference interpreter written from the documentation (history + executable model)')
LEVEL = 'exploration'
RULE = ("case = (FSM class spec: states, EVENTS rules incl. specific/any-state/forbidden, "
        "cond/enter/exit class methods and instance callbacks with scripted behaviour, chaining "
        "entry actions, zero-duration timers, calc_output variant, on_enter/on_exit/on_notrans/"
        "on_output events to a probe) + sequence of stimuli (table events, unknown events, Goto) "
        "each carrying a unique uid; exhaustive: all 4096 transition tables over 2 states x 2 "
        "events, each with a set of sequences (quick: seeded sample of length<=4; thorough: all "
        "3^5) and (thorough) all 3-state tables with sampled sequences; plus random richer "
        "machines; the ordered log (callbacks with state and fsm_event_data seen, events received "
        "by the probe, return values, state, output) is compared with the reference interpreter; "
        "non-trivial = at least one transition was executed")
ASSUMPTIONS = [
    "order of the instance callback and the class method inside one hook is unspecified "
    "(documented): both logs are canonicalised before comparison",
    "on_notrans: required for a missing rule, forbidden after a cond rejection, don't-care for an "
    "explicit None rule",
    "chained transition: the exit action of the intermediate state and the entry action of the "
    "final state must see the chained event's data (the event that caused them)",
    "an endless chain must end with EdzedCircuitError and stop the simulation; finite chains "
    "longer than 2x the number of states are not judged (implementation limit 3n)",
    "stimuli: str events via ExtEvent.send (data gets source='_ext_'), Goto via fsm.event()",
]
REQUIRED = {'transitions': 2000, 'rejections': 500, 'cb_calls': 1000, 'chained_transitions': 50,
            'unknown_events': 100, 'chain_errors': 5, 'notrans_events': 100,
            'goto_stimuli': 50, 'cond_rejections': 50, 'zero_timer_chains': 10}
SHARDS = {'quick': 8, 'thorough': 16}
TIMEOUT = {'quick': 300, 'thorough': 3400}


class RefError(Exception):
    """The reference predicts an EdzedCircuitError that stops the simulation."""


# --------------------------------------------------------------------------------------
# reference interpreter
# --------------------------------------------------------------------------------------
class RefFSM:
    def __init__(self, spec, name):
        self.spec = spec
        self.name = name
        self.states = spec['states']
        self.table = {}
        self.events = set()
        for ev, frm, nxt in spec['events']:
            self.events.add(ev)
            if frm is None:
                self.table[(ev, None)] = nxt
            else:
                for s in frm:
                    self.table[(ev, s)] = nxt
        self.state = None
        self.output = UNSET
        self.log = []
        self.counts = {}        # per-callback call counters (scripts)
        self.active = False
        self.next = None
        self.stats = {}

    def stat(self, name):
        self.stats[name] = self.stats.get(name, 0) + 1

    # ---- scripted callbacks ----
    def run_cond(self, ev, data):
        res = []
        for origin in ('i', 'm'):
            script = self.spec['cond_' + origin].get(ev)
            if script is None:
                continue
            if origin == 'm' and 'cond_' + ev in self.spec.get('disabled_methods', ()):
                continue    # the derived class has switched the inherited method off
            key = ('cond', ev, origin)
            n = self.counts[key] = self.counts.get(key, 0) + 1
            self.log.append(('cb', 'cond', ev, origin, self.state, dict(data)))
            try:
                res.append(cond_value(script, n, self.state))
            except (LookupError, ValueError, AttributeError) as err:
                # an exception inside a callback is a failure of the event handler: the caller
                # gets it and the simulation is stopped (never 'callback not defined')
                raise RefError(f"callback failed: {type(err).__name__}") from None
        return all(res)

    def run_action(self, hook, state, data):
        """hook: 'enter'|'exit'.  Returns list of chain requests issued (enter only)."""
        for origin in ('i', 'm'):
            script = self.spec[hook + '_' + origin].get(state)
            if script is None:
                continue
            if origin == 'm' and f"{hook}_{state}" in self.spec.get('disabled_methods', ()):
                continue    # the derived class has switched the inherited method off
            key = (hook, state, origin)
            n = self.counts[key] = self.counts.get(key, 0) + 1
            self.log.append(('cb', hook, state, origin, self.state, dict(data)))
            if hook == 'enter':
                for req in chain_requests(script, n):
                    cdata = {'cuid': f"{state}.{origin}.{n}.{req[1]}"}
                    ret = self.event(req[0], cdata, nested=True)
                    self.log.append(('chainret', state, origin, ret))

    # ---- event handling ----
    def lookup(self, ev):
        if (ev, self.state) in self.table:
            nxt = self.table[(ev, self.state)]
            return nxt, (nxt is None)
        if (ev, None) in self.table:
            nxt = self.table[(ev, None)]
            return nxt, (nxt is None)
        return None, False

    def event(self, ev, data, nested=False):
        """ev: event name or ('goto', state).  Returns True/False or raises RefError/KeyError."""
        if isinstance(ev, (tuple, list)):
            newstate = ev[1]
        else:
            if ev not in self.events:
                raise KeyError(ev)
            newstate, explicit_none = self.lookup(ev)
            if newstate is None:
                if self.spec['on_notrans']:
                    self.log.append(('notrans', explicit_none,
                                     {'source': self.name, 'trigger': 'notrans', 'event': ev,
                                      'state': self.state}))
                self.stat('rejections')
                return False
            if self.output is not UNSET and not self.run_cond(ev, data):
                self.stat('rejections')
                self.stat('cond_rejections')
                return False
        if self.active:
            if self.next is not None:
                raise RefError('event multiplication')
            self.next = (ev, data, newstate)
            return True
        self.active = True
        try:
            if self.output is not UNSET:
                self.run_action('exit', self.state, data)
                self.emit_state_events('exit')
                if self.spec.get('exit_fail') == self.state:
                    # the last on_exit event goes to a block that does not know its type: a
                    # harmless failure reported to the caller; nothing else happens, the FSM
                    # stays where it is and keeps working
                    self.stat('failed_exit_deliveries')
                    raise RefHarmless('unknown event type at the destination of on_exit')
            hops = 0
            while True:
                hops += 1
                if hops > 200:
                    raise RefError('endless chain')
                if self.next is not None:
                    ev, data, newstate = self.next
                    self.next = None
                    self.run_action('exit', self.state, data)
                    self.stat('chained_transitions')
                self.state = newstate
                self.run_action('enter', self.state, data)
                if self.next is not None:
                    continue
                timer = self.spec['timers'].get(self.state)
                if timer is not None:
                    # zero duration: the timed event is generated immediately (chained)
                    ret = self.event(timer, {}, nested=True)
                    self.stat('zero_timer_chains')
                    if self.next is not None:
                        continue
                break
            self.hops = hops
            out = calc_value(self.spec['calc'], self.state, self.states)
            if out is not KEEP:
                prev = self.output
                if prev is UNSET or prev != out:
                    self.output = out
                    if self.spec['on_output']:
                        self.log.append(('ev', 'output', {
                            'previous': prev, 'value': out, 'source': self.name,
                            'trigger': 'output'}))
            self.emit_state_events('enter')
            self.stat('transitions')
            return True
        finally:
            self.active = False

    def emit_state_events(self, which):
        if self.spec['on_' + which].get(self.state):
            self.log.append(('ev', which, {
                'source': self.name, 'trigger': which, 'state': self.state,
                'value': self.output, 'sdata': {}}))


class RefHarmless(Exception):
    """model: the event fails with EdzedUnknownEvent, the simulation goes on"""


class _Tag:
    def __init__(self, n):
        self.n = n

    def __repr__(self):
        return self.n


UNSET = _Tag('<UNSET>')
KEEP = _Tag('<KEEP>')


def cond_value(script, n, state):
    kind = script[0]
    if kind == 'const':
        return script[1]
    if kind == 'alt':
        return n % 2 == script[1]
    if kind == 'instate':
        return state == script[1]
    if kind == 'raise':
        # a failing condition callback (n-th call only): a handler failure like any other
        if n == script[2]:
            raise {'KeyError': KeyError, 'ValueError': ValueError, 'IndexError': IndexError,
                   'AttributeError': AttributeError}[script[1]]('scripted callback failure')
        return True
    raise AssertionError(script)


def chain_requests(script, n):
    """Enter-action script -> list of (event, tag) to request with self.event()."""
    kind = script[0]
    if kind == 'log':
        return []
    if kind == 'chain':
        return [(script[1], 'a')]
    if kind == 'chain_once':
        return [(script[1], 'a')] if n == 1 else []
    if kind == 'chain_twice':
        return [(script[1], 'a'), (script[2], 'b')]
    raise AssertionError(script)


def calc_value(calc, state, states):
    if calc == 'state':
        return state
    if calc == 'upper':
        return state.upper()
    if calc == 'index':
        return states.index(state)
    if calc == 'parity':
        return states.index(state) % 2
    if calc == 'keep_last':
        return KEEP if state == states[-1] else state
    raise AssertionError(calc)


# --------------------------------------------------------------------------------------
# real FSM construction
# --------------------------------------------------------------------------------------
def to_etype(edzed, ev):
    return edzed.Goto(ev[1]) if isinstance(ev, (tuple, list)) else ev


def build_class(edzed, spec, idx):
    ns = {
        'STATES': list(spec['states']),
        'EVENTS': [[ev, (None if frm is None else (
            ' | '.join(frm) if spec.get('union') and len(frm) > 1 else list(frm))), nxt]
            for ev, frm, nxt in spec['events']],
        'TIMERS': {s: (0, to_etype(edzed, ev)) for s, ev in spec['timers'].items()},
    }
    for ev, script in spec['cond_m'].items():
        def cond(self, ev=ev, script=script):
            n = self.x_cnt[('cond', ev, 'm')] = self.x_cnt.get(('cond', ev, 'm'), 0) + 1
            self.x_log.append(('cb', 'cond', ev, 'm', self.state, dict(edzed.fsm_event_data.get())))
            probe_readonly(edzed, self, ('cond', ev, 'm', n))
            return cond_value(script, n, self.state)
        ns['cond_' + ev] = cond
    for hook in ('enter', 'exit'):
        for state, script in spec[hook + '_m'].items():
            ns[f"{hook}_{state}"] = make_action(edzed, hook, state, 'm', script)
    calc = spec['calc']
    if calc != 'state':
        states = spec['states']

        def calc_output(self):
            val = calc_value(calc, self.state, states)
            return edzed.UNDEF if val is KEEP else val
        ns['calc_output'] = calc_output
    derive = spec.get('derive')
    if derive == 'plain':
        # an FSM definition derived from another one without any change
        base = type(f"GenFSMBase{idx}", (edzed.FSM,), ns)
        return type(f"GenFSM{idx}", (base,), {})
    if derive == 'disable':
        # the derived class switches some inherited callbacks off (name = None)
        base = type(f"GenFSMBase{idx}", (edzed.FSM,), ns)
        return type(f"GenFSM{idx}", (base,), {n: None for n in spec.get('disabled_methods', ())})
    if derive == 'split':
        # tables and every other callback in the base class, the rest in the derived class
        names = sorted(n for n in ns if n.split('_')[0] in ('cond', 'enter', 'exit'))
        upper = {n: ns.pop(n) for n in names[1::2]}
        base = type(f"GenFSMBase{idx}", (edzed.FSM,), ns)
        return type(f"GenFSM{idx}", (base,), upper)
    return type(f"GenFSM{idx}", (edzed.FSM,), ns)


def probe_readonly(edzed, fsm, what):
    """The data obtained from fsm_event_data must refuse modifications (read-only access)."""
    data = edzed.fsm_event_data.get()
    fsm.x_cnt['ro_probes'] = fsm.x_cnt.get('ro_probes', 0) + 1
    try:
        data['vf_write_probe'] = 1
    except TypeError:
        return
    try:
        del data['vf_write_probe']
    except Exception:       # pylint: disable=broad-except
        pass
    fsm.x_writable.append(what)


def make_action(edzed, hook, state, origin, script, holder=None):
    def action(self=None):
        fsm = self if self is not None else holder[0]
        key = (hook, state, origin)
        n = fsm.x_cnt[key] = fsm.x_cnt.get(key, 0) + 1
        fsm.x_log.append(('cb', hook, state, origin, fsm.state, dict(edzed.fsm_event_data.get())))
        probe_readonly(edzed, fsm, (hook, state, origin, n))
        if hook == 'enter':
            for ev, tag in chain_requests(script, n):
                ret = fsm.event(to_etype(edzed, ev), cuid=f"{state}.{origin}.{n}.{tag}")
                fsm.x_log.append(('chainret', state, origin, ret))
    if origin == 'i':
        return lambda: action(None)
    return action


def canon(log):
    """Sort adjacent callback records of one hook (instance cb vs method order unspecified)."""
    out = []
    i = 0
    while i < len(log):
        e = log[i]
        if e[0] == 'cb' and i + 1 < len(log):
            f = log[i + 1]
            if f[0] == 'cb' and f[1:3] == e[1:3] and f[3] != e[3] and e[1] != 'enter':
                pair = sorted([e, f], key=lambda x: x[3])
                out.extend(pair)
                i += 2
                continue
        out.append(e)
        i += 1
    return out


def run_group(spec, seqs, ctx, idx=0):
    """One class, one FSM instance per stimulus sequence, one simulation."""
    import edzed
    refs = []
    fsms = []
    dests = []

    class Dest(edzed.SBlock):
        def init_regular(self):
            self.set_output(0)

        def _event(self, etype, data):
            d = dict(data)
            if etype == 'notrans':
                self.x_log.append(('notrans', None, d))
            else:
                self.x_log.append(('ev', etype, d))

    def build():
        cls = build_class(edzed, spec, idx)
        for k, seq in enumerate(seqs):
            name = f"fsm{k}"
            log = []
            dest = Dest(f"dest{k}", x_log=log)
            kw = {}
            holder = [None]
            for ev, script in spec['cond_i'].items():
                def cond(ev=ev, script=script, holder=holder):
                    fsm = holder[0]
                    n = fsm.x_cnt[('cond', ev, 'i')] = fsm.x_cnt.get(('cond', ev, 'i'), 0) + 1
                    fsm.x_log.append(('cb', 'cond', ev, 'i', fsm.state,
                                      dict(edzed.fsm_event_data.get())))
                    probe_readonly(edzed, fsm, ('cond', ev, 'i', n))
                    return cond_value(script, n, fsm.state)
                kw['cond_' + ev] = cond
            for hook in ('enter', 'exit'):
                for state, script in spec[hook + '_i'].items():
                    kw[f"{hook}_{state}"] = make_action(edzed, hook, state, 'i', script, holder)
            for which in ('enter', 'exit'):
                for state, n in spec['on_' + which].items():
                    if n:
                        kw[f"on_{which}_{state}"] = edzed.Event(dest, which)
            if spec.get('exit_fail'):
                st = spec['exit_fail']
                picky = edzed.Input(f"picky{k}", initdef=0)
                evs = [kw[f"on_exit_{st}"]] if f"on_exit_{st}" in kw else []
                kw[f"on_exit_{st}"] = evs + [edzed.Event(picky, 'vf_nosuch_event')]
            if spec['on_notrans']:
                kw['on_notrans'] = edzed.Event(dest, 'notrans')
            if spec['on_output']:
                kw['on_output'] = edzed.Event(dest, 'output')
            if spec.get('initdef') is not None:
                kw['initdef'] = spec['initdef']
            fsm = cls(name, x_log=log, x_cnt={}, x_writable=[], **kw)
            holder[0] = fsm
            fsms.append(fsm)
            dests.append(dest)
        return fsms

    results = []

    async def drive(sim, _):
        for k, seq in enumerate(seqs):
            fsm = fsms[k]
            res = []
            for si, stim in enumerate(seq):
                ev = stim
                uid = f"u{si}"
                n0 = len(fsm.x_log)
                try:
                    if isinstance(ev, (tuple, list)):
                        ret = fsm.event(edzed.Goto(ev[1]), uid=uid)
                    else:
                        ret = edzed.ExtEvent(fsm, ev).send(uid=uid)
                    outcome = ('ret', ret)
                except edzed.EdzedUnknownEvent:
                    outcome = ('unknown',)
                except Exception as err:
                    outcome = ('error', type(err).__name__)
                res.append((outcome, fsm.state, fsm.output, list(fsm.x_log[n0:])))
                if not sim.alive():
                    res.append('STOPPED')
                    break
            results.append(res)
            if not sim.alive():
                break
        return True

    out = harness.run_sim(build, drive)
    return out, fsms, results


def judge(spec, seqs, out, fsms, results, ctx, case_of):
    """Compare every FSM instance with the reference."""
    import edzed
    if out['exc'] is not None and not isinstance(out['exc'], vloop.Deadlock):
        raise out['exc']
    for k, seq in enumerate(seqs):
        case = case_of(k)
        ref = RefFSM(spec, f"fsm{k}")
        name = f"fsm{k}"
        try:
            judge_one(spec, seq, k, ref, out, fsms, results, ctx)
            nontrivial = ref.stats.get('transitions', 0) > 1
            for key, val in ref.stats.items():
                ctx.count(key, val)
            ctx.count('cb_calls', sum(1 for e in ref.log if e[0] == 'cb'))
            ctx.count('notrans_events', sum(1 for e in ref.log if e[0] == 'notrans'))
        except core.Violation as v:
            hist = None
            if k < len(results):
                hist = [r if isinstance(r, str) else (r[0], r[1], repr(r[2]), r[3]) for r in results[k]]
            ctx.violation(case, v.key, v.msg, history=hist)
            nontrivial = True
        ctx.case_done(case, nontrivial, {
            'spec': spec, 'sequence': seq,
            'reference_log_excerpt': [repr(e) for e in ref.log[:10]]},
            enumerated=case.get('enum', False))


def fix(e):
    """Normalise one log record for comparison (UNDEF <-> UNSET)."""
    import edzed

    def norm(x):
        if x is edzed.UNDEF or x is UNSET:
            return '<UNDEF>'
        if isinstance(x, dict):
            return {k: norm(v) for k, v in x.items()}
        if isinstance(x, (list, tuple)):
            return tuple(norm(v) for v in x)
        return x
    return norm(e)


def compare_logs(got, exp, where):
    got = [fix(e) for e in canon(got)]
    exp = [fix(e) for e in canon(exp)]
    gi = ei = 0
    # explicit-None notrans records are optional in the real log
    while gi < len(got) or ei < len(exp):
        g = got[gi] if gi < len(got) else None
        e = exp[ei] if ei < len(exp) else None
        if e is not None and e[0] == 'notrans':
            if g is not None and g[0] == 'notrans':
                if g[2] != e[2]:
                    raise core.Violation('notrans-data', f"{where}: on_notrans data {g[2]}, expected {e[2]}")
                gi += 1
                ei += 1
                continue
            if e[1]:        # explicit None rule: don't care
                ei += 1
                continue
            raise core.Violation('notrans-missing', f"{where}: on_notrans event missing; got {g}")
        if g is not None and g[0] == 'notrans':
            raise core.Violation('notrans-unexpected', f"{where}: unexpected on_notrans {g[2]}; expected {e}")
        if g != e:
            key = 'log-mismatch'
            if g is not None and e is not None and g[0] == e[0] == 'cb':
                if g[1:5] == e[1:5]:
                    key = f"event-data-seen-by-{g[1]}"
                    if 'cuid' in e[5] and 'cuid' not in g[5]:
                        key = f"chained-transition-{g[1]}-sees-original-event-data"
                elif g[1:4] == e[1:4]:
                    key = f"state-seen-by-{g[1]}"
                else:
                    key = 'callback-order'
            elif g is not None and e is not None and g[0] == e[0] == 'ev':
                key = f"event-{e[1]}-data" if g[1] == e[1] else 'event-order'
            elif g is None:
                key = f"missing-{e[0]}-{e[1]}"
            elif e is None:
                key = f"extra-{g[0]}-{g[1]}"
            else:
                key = f"order-{e[0]}-{e[1]}-vs-{g[0]}-{g[1]}"
            raise core.Violation(
                key, f"{where}: record #{gi}: got {g}, expected {e}\n   got log: {got}\n   exp log: {exp}")
        gi += 1
        ei += 1


def judge_one(spec, seq, k, ref, out, fsms, results, ctx):
    import edzed
    sim = out['sim']
    where0 = f"{spec['states']} events={spec['events']}"
    # initialisation (the reference runs the init transition first)
    try:
        ref.event(('goto', spec.get('initdef') or spec['states'][0]), {})
        init_err = None
    except RefError as err:
        init_err = err
    if init_err is not None:
        ctx.count('chain_errors')
        if out.get('started'):
            raise core.Violation('chain-error-not-detected-at-init',
                                 f"{where0}: reference predicts {init_err} during init, but started")
        return
    if not out.get('started'):
        raise core.Violation('startup-failed', f"{where0}: did not start: {sim.init_exc}")
    fsm = fsms[k]
    ctx.count('readonly_probes', fsm.x_cnt.get('ro_probes', 0))
    if fsm.x_writable:
        raise core.Violation(
            'event-data-writable',
            f"{where0}: the mapping from fsm_event_data.get() accepted a modification in "
            f"(hook, state/event, origin, call#) {fsm.x_writable[:4]}")
    if k >= len(results):
        return      # simulation was stopped by an earlier instance (predicted there)
    # the init part of the real log precedes the first stimulus: it is the prefix
    res = results[k]
    consumed = sum(len(r[3]) for r in res if not isinstance(r, str))
    init_log = fsm.x_log[:len(fsm.x_log) - consumed] if not res or isinstance(res[0], str) else None
    if init_log is None:
        # everything before the first stimulus' records
        total = len(fsm.x_log)
        init_len = total - consumed
        init_log = fsm.x_log[:init_len]
    compare_logs(init_log, ref.log, f"{where0} init")
    for si, stim in enumerate(seq):
        if si >= len(res) or isinstance(res[si], str):
            raise core.Violation('simulation-stopped', f"{where0}: simulation stopped before stimulus #{si}")
        outcome, state, output, log = res[si]
        n0 = len(ref.log)
        uid = f"u{si}"
        where = f"{where0} seq={seq} stimulus #{si} {stim!r}"
        try:
            if isinstance(stim, (tuple, list)):
                ctx.count('goto_stimuli')
                exp = ('ret', ref.event(stim, {'uid': uid}))
            else:
                exp = ('ret', ref.event(stim, {'uid': uid, 'source': '_ext_'}))
        except KeyError:
            exp = ('unknown',)
            ctx.count('unknown_events')
        except RefHarmless:
            exp = ('unknown',)
        except RefError as err:
            exp = ('error', str(err))
            ctx.count('chain_errors')
        if exp[0] == 'error':
            if outcome[0] != 'error' or sim.alive() or not isinstance(
                    sim.circuit.error, edzed.EdzedCircuitError):
                raise core.Violation(
                    'chain-error-not-detected',
                    f"{where}: reference predicts {exp[1]}; got {outcome}, "
                    f"circuit error {sim.circuit.error!r}")
            return      # simulation stopped as predicted
        if getattr(ref, 'hops', 0) > 2 * len(spec['states']):
            return      # long finite chain: not judged (implementation limit is 3n)
        if outcome != exp:
            raise core.Violation(
                f"return-value-{exp[0]}-{exp[-1]}-got-{outcome[0]}-{outcome[-1]}",
                f"{where}: outcome {outcome}, reference {exp}")
        compare_logs(log, ref.log[n0:], where)
        if state != ref.state:
            raise core.Violation('state', f"{where}: state {state!r}, reference {ref.state!r}")
        if fix(output) != fix(ref.output):
            raise core.Violation('output', f"{where}: output {output!r}, reference {ref.output!r}")
        if si + 1 < len(res) and res[si + 1] == 'STOPPED':
            raise core.Violation('simulation-stopped-unexpectedly',
                                 f"{where}: simulation stopped: {sim.circuit.error!r}")


# --------------------------------------------------------------------------------------
# generators
# --------------------------------------------------------------------------------------
def plain_spec(states, rules, flavor):
    """rules: {(event, from|None): next|None|'absent'}"""
    events = []
    for (ev, frm), nxt in rules.items():
        if nxt == 'absent':
            continue
        events.append([ev, None if frm is None else [frm], nxt])
    spec = {'states': list(states), 'events': events, 'timers': {}, 'calc': 'state',
            'cond_m': {}, 'cond_i': {}, 'enter_m': {}, 'enter_i': {}, 'exit_m': {}, 'exit_i': {},
            'on_enter': {}, 'on_exit': {}, 'on_notrans': 1, 'on_output': 1, 'initdef': None}
    evnames = sorted({e[0] for e in events})
    if flavor >= 1:
        for s in states:
            spec['enter_m'][s] = ['log']
            spec['exit_m'][s] = ['log']
            spec['on_enter'][s] = 1
            spec['on_exit'][s] = 1
    if flavor >= 2:
        for i, ev in enumerate(evnames):
            spec['cond_m' if i % 2 else 'cond_i'][ev] = [['alt', 0], ['instate', states[0]],
                                                         ['const', 1], ['const', 0]][(flavor + i) % 4]
        spec['enter_i'][states[-1]] = ['log']
        spec['exit_i'][states[0]] = ['log']
        spec['calc'] = ['upper', 'parity', 'index'][flavor % 3]
    return spec


def enum_tables(nstates, nevents):
    states = [f"S{i}" for i in range(nstates)]
    evs = [f"e{i + 1}" for i in range(nevents)]
    slots = [(ev, frm) for ev in evs for frm in states + [None]]
    options = ['absent', None] + states
    for combo in itertools.product(range(len(options)), repeat=len(slots)):
        rules = {slot: options[c] for slot, c in zip(slots, combo)}
        # an event must be mentioned at least once to be a known event; fine either way
        yield states, rules


def all_sequences(alphabet, maxlen):
    for length in range(1, maxlen + 1):
        yield from itertools.product(alphabet, repeat=length)


def random_spec(rng):
    ns = rng.choice([1, 2, 3, 3, 4, 5, 6])
    states = [f"S{i}" for i in range(ns)]
    evs = [f"e{i + 1}" for i in range(rng.choice([1, 2, 2, 3]))]
    events = []
    for ev in evs:
        used = set()
        if rng.random() < 0.5:
            events.append([ev, None, rng.choice(states + [None])])
        pool = states[:]
        rng.shuffle(pool)
        while pool and rng.random() < 0.7:
            grp = [pool.pop() for _ in range(min(len(pool), rng.choice([1, 1, 2])))]
            events.append([ev, grp, rng.choice(states + [None])])
        if not any(e[0] == ev for e in events):
            events.append([ev, None, rng.choice(states)])
        if rng.random() < 0.08 and not any(e[0] == ev and e[1] is None for e in events):
            # a rule with an empty list of source states defines no transition at all
            events.append([ev, [], rng.choice(states)])
    spec = {'states': states, 'events': events, 'timers': {}, 'union': rng.random() < 0.5,
            'calc': rng.choice(['state', 'upper', 'index', 'parity', 'keep_last']),
            'cond_m': {}, 'cond_i': {}, 'enter_m': {}, 'enter_i': {}, 'exit_m': {}, 'exit_i': {},
            'on_enter': {}, 'on_exit': {}, 'on_notrans': rng.choice([0, 1, 1]),
            'on_output': rng.choice([0, 1, 1]),
            'initdef': rng.choice([None, None] + states)}
    conds = [['const', True], ['const', False], ['const', 1], ['const', 0], ['const', 'x'],
             ['const', None], ['alt', 0], ['alt', 1], ['instate', rng.choice(states)],
             ['raise', rng.choice(['KeyError', 'ValueError', 'IndexError', 'AttributeError']),
              rng.choice([1, 2, 3])]]
    for ev in evs:
        if rng.random() < 0.4:
            spec['cond_m'][ev] = rng.choice(conds)
        if rng.random() < 0.3:
            spec['cond_i'][ev] = rng.choice(conds)

    def target():
        if rng.random() < 0.5:
            return ['goto', rng.choice(states)]
        return rng.choice(evs)
    for s in states:
        for origin in ('m', 'i'):
            r = rng.random()
            if r < 0.45:
                continue
            if r < 0.75:
                spec['enter_' + origin][s] = ['log']
            elif r < 0.88:
                spec['enter_' + origin][s] = ['chain_once', target()]
            elif r < 0.97:
                spec['enter_' + origin][s] = ['chain', target()]
            else:
                spec['enter_' + origin][s] = ['chain_twice', target(), target()]
            if rng.random() < 0.5:
                spec['exit_' + origin][s] = ['log']
        if rng.random() < 0.6:
            spec['on_enter'][s] = 1
        if rng.random() < 0.6:
            spec['on_exit'][s] = 1
        if rng.random() < 0.12:
            spec['timers'][s] = target()
    if rng.random() < 0.2:
        spec['derive'] = rng.choice(['plain', 'split', 'disable'])
        if spec['derive'] == 'disable':
            names = ['cond_' + e for e in spec['cond_m']] + ['enter_' + st for st in spec['enter_m']] \
                + ['exit_' + st for st in spec['exit_m']]
            spec['disabled_methods'] = sorted(n for n in names if rng.random() < 0.5)
    if rng.random() < 0.12:
        spec['exit_fail'] = rng.choice(states)
    # keep_last must not leave the FSM uninitialised after the init transition: checked by caller
    return spec, evs


def random_seq(rng, spec, evs, maxlen):
    seq = []
    for _ in range(rng.randrange(1, maxlen + 1)):
        r = rng.random()
        if r < 0.75:
            seq.append(rng.choice(evs))
        elif r < 0.87:
            seq.append('bogus')
        else:
            seq.append(['goto', rng.choice(spec['states'])])
    return seq


def init_ok(spec):
    """True if the reference leaves the FSM initialised (or predicts an init error)."""
    ref = RefFSM(spec, 'x')
    try:
        ref.event(('goto', spec.get('initdef') or spec['states'][0]), {})
    except RefError:
        return True
    return ref.output is not UNSET


def run_shard(ctx):
    rng = ctx.rng('gen')
    quick = ctx.tier == 'quick'
    shard, nsh = ctx.shard, ctx.nshards
    # ---- exhaustive 2 states x 2 events ----
    alphabet = ['e1', 'e2', 'bogus']
    if quick:
        pool = list(all_sequences(alphabet, 4))
    else:
        pool = list(itertools.product(alphabet, repeat=5)) + list(all_sequences(alphabet, 3))
    for ti, (states, rules) in enumerate(enum_tables(2, 2)):
        if ti % nsh != shard:
            continue
        spec = plain_spec(states, rules, ti % 5)
        known = {e[0] for e in spec['events']}
        if quick:
            seqs = [list(s) for s in rng.sample(pool, 6)]
        else:
            seqs = [list(s) for s in pool]
        out, fsms, results = run_group(spec, seqs, ctx, ti)
        judge(spec, seqs, out, fsms, results, ctx,
              lambda k, ti=ti, seqs=seqs: {'table': ti, 'flavor': ti % 5, 'seq': seqs[k],
                                           'enum': not quick, 'kind': 'enum22'})
    # ---- 3 states x 2 events: sampled (quick) / exhaustive tables with sampled sequences ----
    if quick:
        n3 = 250
        all3 = None
    else:
        n3 = None
    if quick:
        states3 = ['S0', 'S1', 'S2']
        for _ in range(n3):
            rules = {(ev, frm): rng.choice(['absent', None] + states3)
                     for ev in ('e1', 'e2') for frm in states3 + [None]}
            spec = plain_spec(states3, rules, rng.randrange(5))
            seqs = [[rng.choice(alphabet) for _ in range(rng.randrange(1, 6))] for _ in range(4)]
            out, fsms, results = run_group(spec, seqs, ctx)
            judge(spec, seqs, out, fsms, results, ctx,
                  lambda k, spec=spec, seqs=seqs: {'spec': spec, 'seq': seqs[k], 'kind': 'rnd32'})
    else:
        for ti, (states, rules) in enumerate(enum_tables(3, 2)):
            if ti % nsh != shard:
                continue
            if ctx.out_of_time():
                ctx.counters['tables32_truncated'] += 1
                break
            spec = plain_spec(states, rules, ti % 5)
            seqs = [[rng.choice(alphabet) for _ in range(5)] for _ in range(2)]
            out, fsms, results = run_group(spec, seqs, ctx, ti)
            judge(spec, seqs, out, fsms, results, ctx,
                  lambda k, ti=ti, seqs=seqs: {'table3': ti, 'seq': seqs[k], 'kind': 'enum32'})
            ctx.count('tables32')
    # ---- random richer machines ----
    n = 120 if quick else 8000
    done = 0
    while done < n:
        spec, evs = random_spec(rng)
        if not init_ok(spec):
            continue
        done += 1
        seq = random_seq(rng, spec, evs, 6)
        out, fsms, results = run_group(spec, [seq], ctx)
        judge(spec, [seq], out, fsms, results, ctx,
              lambda k, spec=spec, seq=seq: {'spec': spec, 'seq': seq, 'kind': 'rich'})
    ctx.exhaustive = True


def coverage_extra(tier, counters, sets):
    return {'exhaustive_slice': (
        "all 4096 transition tables over 2 states x 2 events (specific / any-state / forbidden / "
        "absent rules), 5 callback flavours by table index; "
        + ("6 sampled sequences of length<=4 each" if tier == 'quick' else
           "all 3^5 + all shorter sequences over {e1,e2,unknown} each; all 390625 tables over "
           "3 states x 2 events with 2 sampled sequences each (tables32 counter)"))}


def replay(rep, ctx):
    case = rep['case']
    if 'spec' in case:
        spec, seq = case['spec'], case['seq']
    elif 'table' in case:
        states, rules = next(itertools.islice(enum_tables(2, 2), case['table'], None))
        spec, seq = plain_spec(states, rules, case['table'] % 5), case['seq']
    else:
        states, rules = next(itertools.islice(enum_tables(3, 2), case['table3'], None))
        spec, seq = plain_spec(states, rules, case['table3'] % 5), case['seq']
    out, fsms, results = run_group(spec, [seq], ctx)
    print("spec:", spec)
    print("seq:", seq)
    for r in results:
        for x in r:
            print("  ", x)
    judge(spec, [seq], out, fsms, results, ctx, lambda k: case)
