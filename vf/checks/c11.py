"""
C11 - a block never handles two events at the same time.

Invariant at the SBlock.event boundary (independent busy counters), handler-level nesting
counters and a follow-up probe after every external event.
"""

import functools
import sys

from .. import core, harness, vloop

PROP = 'C11'
TECHNIQUE = ('runtime monitoring: invariant at the SBlock.event boundary (per-block busy depth, legitimacy of nested entries) + follow-up probe events after every harmless outcome')
LEVEL = 'exploration'
RULE = ("case = random directed event graph (self-loops, cycles, diamonds) over 2..6 blocks of "
        "kinds Probe / Input / Counter / toggle-FSM (with chaining entry action or zero timer) / "
        "Repeat / OutputFunc, edges realised as on_output / on_every_output / on_enter / "
        "on_success / probe forwarding, each with an optional filter (pass, reject, alternate) and "
        "optional EventCond (one branch may be None) + up to 4 external stimuli (valid events, "
        "unknown types, missing parameters, a failing handler); monitors: per-block busy counter at "
        "the event() boundary, handler nesting depth, refusal of every illegitimate re-entry with "
        "EdzedCircuitError + simulation stop, no refusal of a legitimate event, follow-up event to "
        "every block after every stimulus; non-trivial = >=2 events reached handlers")
ASSUMPTIONS = [
    "legitimate re-entry = (a) an FSM's event() called from its own entry action / zero-length "
    "timer, (b) an event that arrives while the block is being initialised by the simulator "
    "(Circuit.init_sblock) - recognised by the harness' own markers, not by edzed's guard flag",
    "wrappers on SBlock.event, on Circuit.init_sblock and on the handlers of the library classes "
    "only count and delegate",
    "follow-up probe: an unknown event type must be answered with EdzedUnknownEvent (not with a "
    "recursion error) by library blocks, 'ping' handled by probes",
    "at quiescent points (after every external stimulus) the blocks' own busy flags "
    "(_event_active, _fsm_event_active, _next_event - read if they exist) must be down, and an "
    "output assignment of a block must never be re-entered for the same block outside its own "
    "init step (structural invariants; they also see handlers invoked without event())",
]
REQUIRED = {'events_entered': 2000, 'reentry_attempts_refused': 100, 'followups_ok': 2000,
            'harmless_stimuli': 500, 'legit_nested_fsm': 30, 'fsm_exit_action_reentry': 30, 'chained_out_of_timed_state': 20, 'filter_rejections': 100,
            'eventcond_none': 50, 'unknown_or_param_errors': 100, 'handler_failures': 20,
            'init_by_event': 20}
SHARDS = {'quick': 8, 'thorough': 16}
TIMEOUT = {'quick': 300, 'thorough': 3000}

MON = None      # the active monitor (one per case)
_patched = False


class Monitor:
    def __init__(self, ctx):
        self.ctx = ctx
        self.busy = {}          # block -> number of event() calls in progress
        self.depth = {}         # block -> handler nesting depth
        self.initing = {}       # block -> init_sblock in progress
        self.assigning = {}     # block -> set_output calls in progress
        self.viol = None
        self.reentry_illegit = 0    # during the current stimulus
        self.handler_raised = 0
        self.entered = 0
        self.legit_nested = 0
        self.unspecified = 0

    def fail(self, key, msg):
        if self.viol is None:
            self.viol = core.Violation(key, msg)


def install_patches():
    """Class-level wrappers (once per worker process)."""
    global _patched
    if _patched:
        return
    _patched = True
    import edzed
    from edzed import simulator

    orig_event = edzed.SBlock.event

    def event(self, etype, /, **data):
        mon = MON
        if mon is None:
            return orig_event(self, etype, **data)
        nbusy = mon.busy.get(self, 0)
        legit = True
        if isinstance(etype, edzed.EventCond):
            if (etype.etrue if data.get('value') else etype.efalse) is None:
                mon.ctx.count('eventcond_none')
        if nbusy:
            caller = sys._getframe(1)
            if (caller.f_code.co_name == 'event'
                    and caller.f_code.co_filename.endswith('/edzed/addons.py')):
                caller = caller.f_back      # AddonPersistence.event() is only a relay
            own_call = caller.f_locals.get('self') is self
            own_fsm = own_call and caller.f_code.co_filename.endswith('/edzed/fsm.py')
            own_enter = getattr(self, 'x_in_enter', 0) > 0
            # initialisation by an event: the block's own init routine calls self.event() while
            # the simulator (or a pending event) is initialising it
            initing_any = mon.initing.get(self, 0) > 0
            initing = initing_any and own_call
            legit = own_fsm or own_enter or initing
            if not legit and initing_any:
                # an event looping back into a block from inside that block's own running
                # init step: outcome unspecified (documented recursion guard of the init)
                legit = None
                mon.unspecified += 1
            if initing:
                mon.ctx.count('init_by_event')
            if legit:
                mon.legit_nested += 1
            elif legit is False:
                mon.reentry_illegit += 1
        mon.busy[self] = nbusy + 1
        mon.entered += 1
        try:
            ret = orig_event(self, etype, **data)
        except edzed.EdzedCircuitError as err:
            tb = err.__traceback__
            if ('recursive' in str(err).lower() and legit and tb.tb_next is not None
                    and tb.tb_next.tb_next is None):
                # raised by this very call although the block was not busy
                mon.fail('legitimate-event-refused',
                         f"{self} refused event {etype!r} with {err!r} although it was not "
                         f"handling another event (busy={nbusy})")
            raise
        else:
            if legit is False:
                mon.fail('reentrant-event-accepted',
                         f"{self} accepted event {etype!r} while it was still handling another "
                         f"event (re-entry was not refused)")
            return ret
        finally:
            mon.busy[self] = nbusy
    edzed.SBlock.event = event

    orig_set_output = edzed.SBlock.set_output

    def set_output(self, value):
        # an output assignment of a sequential block re-entered for the same block = the block
        # is processing two events at once, whichever way the second one got in (this also sees
        # handlers that were invoked without passing the event() entry point)
        mon = MON
        if mon is None:
            return orig_set_output(self, value)
        d = mon.assigning.get(self, 0)
        if d and mon.initing.get(self, 0) > 0:
            # an event looping back into a block from inside that block's own running init
            # step: outcome unspecified (see the init recursion guard), not judged
            mon.unspecified += 1
        elif d:
            mon.fail('nested-output-assignment',
                     f"{self}: set_output({value!r}) entered while another output assignment of "
                     "the same block (and its on_output events) is still in progress")
        mon.assigning[self] = d + 1
        try:
            return orig_set_output(self, value)
        finally:
            mon.assigning[self] = d
    edzed.SBlock.set_output = set_output
    for cls in (edzed.Input, edzed.Counter, edzed.FSM, edzed.Repeat, edzed.OutputFunc):
        # subclasses that do not override set_output inherit the wrapper automatically
        assert cls.set_output is set_output, cls

    orig_init = simulator.Circuit.init_sblock

    def init_sblock(blk, full):
        mon = MON
        if mon is None:
            return orig_init(blk, full)
        mon.initing[blk] = mon.initing.get(blk, 0) + 1
        try:
            return orig_init(blk, full)
        finally:
            mon.initing[blk] -= 1
    simulator.Circuit.init_sblock = staticmethod(init_sblock)

    def wrap_handler(func, fsm=False):
        def handler(self, *args, **kwargs):
            mon = MON
            if mon is None:
                return func(self, *args, **kwargs)
            d = mon.depth.get(self, 0) + 1
            mon.depth[self] = d
            limit = 2 if fsm else 1
            if d > limit:
                mon.fail('handler-nesting',
                         f"{self}: {d} nested handler activations (two events handled at once)")
            try:
                return func(self, *args, **kwargs)
            finally:
                mon.depth[self] = d - 1
        handler.__wrapped__ = func
        return handler

    # NOTE: the _event_ETYPE handlers in _ct_handlers must NOT be wrapped: edzed tells a
    # parameter error from a handler failure by the traceback depth, an extra frame changes it.
    edzed.FSM._event = wrap_handler(edzed.FSM._event, fsm=True)
    edzed.Repeat._event = wrap_handler(edzed.Repeat._event)


# ---------------------------------------------------------------------------------------------
KINDS = ['probe', 'probe', 'input', 'counter', 'fsm', 'repeat', 'ofunc']
ETYPE_FOR = {'probe': 'p', 'input': 'put', 'counter': 'inc', 'fsm': 'toggle', 'repeat': 'put',
             'ofunc': 'put'}


def gen(ctx):
    rng = ctx.rng('gen')
    n = 1800 if ctx.tier == "quick" else 90000
    for _ in range(n):
        nb = rng.randrange(2, 7)
        blocks = []
        for i in range(nb):
            kind = rng.choice(KINDS)
            blocks.append({'name': f"b{i}", 'kind': kind, 'edges': [], 'opts': {}})
            if rng.random() < 0.25:
                blocks[-1]['debug'] = True      # debug messages enabled on this block
        for i, b in enumerate(blocks):
            if b['kind'] == 'repeat':
                targets = [j for j, t in enumerate(blocks) if t['kind'] in ('probe', 'input', 'ofunc')]
                if not targets:
                    b['kind'] = 'probe'
                else:
                    b['opts']['dest'] = rng.choice(targets)
                    continue
            if b['kind'] == 'fsm':
                b['opts']['chain'] = rng.choice(['none', 'none', 'enter', 'timer', 'timed_enter',
                                                 'timer_notrans'])
                # an exit action that sends an event to its own FSM: never a documented
                # exception, not even in the intermediate state of a chained transition
                b['opts']['exit_send'] = rng.choice(['none', 'none', 'none', 'b', 'a', 'c'])
            if b['kind'] == 'input':
                b['opts']['initdef'] = rng.random() < 0.7
                # persistent with a saved value: the block is initialised by restoring it
                b['opts']['stored'] = rng.choice([None, None, 1, 2])
            if b['kind'] == 'probe':
                b['opts']['fail'] = rng.random() < 0.06
            density = rng.choice([0.5, 1, 1, 1.5, 2])
            k = int(density) + (1 if rng.random() < density - int(density) else 0)
            for _ in range(k):
                j = rng.randrange(nb)
                via = {'probe': ['fwd'], 'input': ['on_output', 'on_every'],
                       'counter': ['on_output', 'on_every'], 'fsm': ['on_enter_a', 'on_enter_b', 'on_output', 'on_exit_a', 'on_exit_b',
                               'on_notrans', 'on_notrans'],
                       'ofunc': ['on_success']}[b['kind']]
                edge = {'to': j, 'via': rng.choice(via),
                        'filter': rng.choice([None, None, None, 'pass', 'reject', 'alt', 'reject_obj',
                                            'reject_partial', 'reject_dataedit']),
                        'cond': rng.choice([None, None, None, 'tn', 'nt', 'tt'])}
                if blocks[j]['kind'] in ('input', 'counter', 'fsm') and rng.random() < 0.06:
                    # an event type the destination does not know: a harmless failure that is
                    # reported through the whole chain of senders; nobody may stay locked
                    edge['bogus'] = True
                b['edges'].append(edge)
        # inputs without initdef need someone to initialise them: give them initdef if no inbound
        for i, b in enumerate(blocks):
            if b['kind'] == 'input' and not b['opts']['initdef']:
                if not any(e['to'] == i for bb in blocks for e in bb['edges'] if bb is not b):
                    b['opts']['initdef'] = True
        stimuli = []
        for _ in range(rng.randrange(1, 5)):
            j = rng.randrange(nb)
            r = rng.random()
            if r < 0.7:
                stimuli.append([j, 'valid'])
            elif r < 0.85:
                stimuli.append([j, 'unknown'])
            else:
                stimuli.append([j, 'noparam'])
        yield {'blocks': blocks, 'stimuli': stimuli, 'perm': rng.randrange(1 << 16)}


def run_case(case, ctx):
    global MON
    import random
    import edzed
    install_patches()
    mon = Monitor(ctx)
    hist = core.History()
    blocks = case['blocks']
    counters = {}

    class Probe(edzed.SBlock):
        def init_regular(self):
            self.set_output(0)

        def _event(self, etype, data):
            d = mon.depth.get(self, 0) + 1
            mon.depth[self] = d
            if d > 1:
                mon.fail('handler-nesting', f"{self}: {d} nested handler activations")
            try:
                hist.log('recv', self.name, etype)
                if etype == 'ping':
                    return 'pong'
                if self.x_fail:
                    mon.handler_raised += 1
                    raise RuntimeError(f"scripted failure in {self.name}")
                self.x_n[0] += 1
                for ev in self.x_fwd:
                    ev.send(self, value=self.x_n[0] % 3)
                return 'ok'
            finally:
                mon.depth[self] = d - 1

    class Toggle(edzed.FSM):
        STATES = ['a', 'b', 'c', 'd']
        EVENTS = [['toggle', 'a', 'b'], ['toggle', 'b', 'a'], ['toggle', 'c', 'a'],
                  ['toggle', 'd', 'a'], ['hop', None, 'a'], ['nohop', 'c', 'a']]
        # 'd': zero-length timer whose timed event has no transition there: it is refused
        # (on_notrans events are sent) and the FSM stays in 'd'
        TIMERS = {'c': (0, 'hop'), 'd': (0, 'nohop')}

        def enter_b(self):
            if self.x_chain == 'enter':
                self.x_in_enter = getattr(self, 'x_in_enter', 0) + 1
                try:
                    self.event('hop')       # chained transition (documented exception)
                finally:
                    self.x_in_enter -= 1
            elif self.x_chain == 'timer_notrans':
                self.x_in_enter = getattr(self, 'x_in_enter', 0) + 1
                try:
                    ctx.count('refused_zero_length_timed_event')
                    self.event(edzed.Goto('d'))     # -> zero-length timer -> 'nohop' refused
                finally:
                    self.x_in_enter -= 1
            elif self.x_chain in ('timer', 'timed_enter'):
                self.x_in_enter = getattr(self, 'x_in_enter', 0) + 1
                try:
                    self.event(edzed.Goto('c'))     # -> zero-length timer -> 'hop'
                finally:
                    self.x_in_enter -= 1

        def enter_c(self):
            if self.x_chain == 'timed_enter':
                # the entry action of a TIMED state (zero duration) requests the single chained
                # transition itself: documented exception; the state is only an intermediate
                # one, so its zero-length timer must not add a second event
                ctx.count('chained_out_of_timed_state')
                self.x_in_enter = getattr(self, 'x_in_enter', 0) + 1
                try:
                    self.event(edzed.Goto('a'))
                finally:
                    self.x_in_enter -= 1

        def _exit_send(self, state):
            if getattr(self, 'x_exit_send', 'none') == state:
                ctx.count('fsm_exit_action_reentry')
                self.event('toggle')

        def exit_a(self):
            self._exit_send('a')

        def exit_b(self):
            self._exit_send('b')

        def exit_c(self):
            self._exit_send('c')

    def mk_event(b, e, idx):
        dest = blocks[e['to']]
        etype = ETYPE_FOR[dest['kind']]
        if e.get('bogus'):
            etype = 'vf_nosuch_event'
            ctx.count('unknown_event_edges')
        if e['cond'] == 'tn':
            etype = edzed.EventCond(etype, None)
        elif e['cond'] == 'nt':
            etype = edzed.EventCond(None, etype)
        elif e['cond'] == 'tt':
            etype = edzed.EventCond(etype, etype)
        flt = None
        if e['filter'] == 'pass':
            flt = lambda d: True
        elif e['filter'] == 'reject':
            def flt(d):
                ctx.count('filter_rejections')
                return False
        elif e['filter'] == 'reject_obj':
            class Rejector:         # a callable object (like the filters of edzed.blocklib)
                def __call__(self, d):
                    ctx.count('filter_rejections')
                    return False
            flt = Rejector()
        elif e['filter'] == 'reject_partial':
            def rej(answer, d):
                ctx.count('filter_rejections')
                return answer
            flt = functools.partial(rej, 0)     # any false non-mapping value rejects
        elif e['filter'] == 'reject_dataedit':
            def rejecting(_value):
                ctx.count('filter_rejections')
                return edzed.DataEdit.REJECT
            # a rejecting step in the middle of a chain of edits
            flt = edzed.DataEdit.add(vf_probe=0).modify('vf_probe', rejecting).add(checked=True)
        elif e['filter'] == 'alt':
            key = (b['name'], idx)

            def flt(d, key=key):
                counters[key] = counters.get(key, 0) + 1
                if counters[key] % 2:
                    ctx.count('filter_rejections')
                    return None
                return d
        if dest['kind'] == 'repeat' and isinstance(etype, edzed.EventCond):
            etype = 'put'
        if e['via'] == 'on_notrans':
            # (on_notrans events carry no 'value' item, most destinations need one)
            flt = [lambda d: {**d, 'value': 1}] + ([flt] if flt is not None else [])
        return edzed.Event(dest['name'], etype, efilter=flt)

    def build():
        order = list(range(len(blocks)))
        random.Random(case['perm']).shuffle(order)
        created = {}
        for i in order:
            b = blocks[i]
            evs = {}
            for idx, e in enumerate(b['edges']):
                evs.setdefault(e['via'], []).append(mk_event(b, e, idx))
            k = b['kind']
            name = b['name']
            dbg = {'debug': True} if b.get('debug') else {}
            if k == 'probe':
                created[i] = Probe(name, x_fwd=evs.get('fwd', []), x_n=[0], x_fail=b['opts'].get('fail'), **dbg)
            elif k == 'input':
                kw = {'initdef': 0} if b['opts']['initdef'] else {}
                if b['opts'].get('stored') is not None:
                    kw['persistent'] = True
                    storage[f"<Input '{name}'>"] = b['opts']['stored']
                    ctx.count('restored_inputs')
                created[i] = edzed.Input(name, on_output=evs.get('on_output'),
                                         on_every_output=evs.get('on_every'), **kw, **dbg)
            elif k == 'counter':
                created[i] = edzed.Counter(name, on_output=evs.get('on_output'),
                                           on_every_output=evs.get('on_every'), **dbg)
            elif k == 'fsm':
                created[i] = Toggle(name, on_enter_a=evs.get('on_enter_a'),
                                    on_enter_b=evs.get('on_enter_b'),
                                    on_exit_a=evs.get('on_exit_a'), on_exit_b=evs.get('on_exit_b'),
                                    on_notrans=evs.get('on_notrans'),
                                    on_output=evs.get('on_output'), x_chain=b['opts']['chain'],
                                    x_exit_send=b['opts'].get('exit_send', 'none'), **dbg)
            elif k == 'repeat':
                created[i] = edzed.Repeat(name, dest=blocks[b['opts']['dest']]['name'],
                                          etype='put', interval=1000, count=0, **dbg)
            elif k == 'ofunc':
                created[i] = edzed.OutputFunc(name, func=lambda v: v, on_success=evs.get('on_success'),
                                              on_error=None, **dbg)
        return created

    outcome = {'stims': [], 'init_failed': None}
    storage = {'edzed-stop-time': 0.0}

    async def drive(sim, created):
        for si, (j, what) in enumerate(case['stimuli']):
            blk = created[j]
            kind = blocks[j]['kind']
            mon.reentry_illegit = 0
            mon.handler_raised = 0
            mon.unspecified = 0
            etype = ETYPE_FOR[kind]
            exc = None
            try:
                if what == 'unknown':
                    edzed.ExtEvent(blk, 'vf_bogus').send(si)
                elif what == 'noparam' and kind == 'input':
                    edzed.ExtEvent(blk, etype).send()       # missing 'value'
                elif what == 'noparam' and kind == 'counter':
                    edzed.ExtEvent(blk, 'put').send()
                else:
                    edzed.ExtEvent(blk, etype).send(si + 1)
            except Exception as err:
                exc = err
            bad = mon.reentry_illegit > 0 or mon.handler_raised > 0
            alive = sim.alive()
            rec = {'stim': [j, what], 'exc': repr(exc), 'reentries': mon.reentry_illegit,
                   'handler_raised': mon.handler_raised, 'alive': alive}
            outcome['stims'].append(rec)
            if what in ('unknown', 'noparam') and not bad:
                ctx.count('unknown_or_param_errors')
            if mon.unspecified:
                ctx.count('unspecified_init_loopbacks')
            elif bad:
                if mon.reentry_illegit:
                    ctx.count('reentry_attempts_refused', mon.reentry_illegit)
                if mon.handler_raised:
                    ctx.count('handler_failures')
                if alive or not isinstance(sim.circuit.error, edzed.EdzedCircuitError):
                    mon.fail('recursion-or-failure-did-not-stop-simulation',
                             f"stimulus {rec}: simulation alive={alive}, error={sim.circuit.error!r}")
                if not isinstance(exc, Exception):
                    mon.fail('recursion-error-not-reported-to-caller', f"stimulus {rec}")
            else:
                ctx.count('harmless_stimuli')
                if not alive:
                    mon.fail('harmless-event-stopped-simulation',
                             f"stimulus {rec} stopped the simulation: {sim.circuit.error!r}")
            # follow-up probe: every block must accept an event again
            for i2, b2 in created.items():
                k2 = blocks[i2]['kind']
                try:
                    if k2 == 'probe':
                        r = b2.event('ping')
                        ok = r == 'pong'
                    elif k2 == 'repeat':
                        r = b2.event('vf_ping')
                        ok = r is None
                    else:
                        try:
                            b2.event('vf_ping')
                            ok = False
                        except edzed.EdzedUnknownEvent:
                            ok = True
                except Exception as err:
                    ok = False
                    r = err
                # structural invariant at this quiescent point (no event is being handled now):
                # the block's own "busy" flags must be down
                flags = [f for f in ('_event_active', '_fsm_event_active')
                         if getattr(b2, f, False) is True]
                if getattr(b2, '_next_event', None) is not None:
                    flags.append('_next_event')
                if flags:
                    ok = False
                    r = f"busy flag(s) {flags} still set although no event is being handled"
                if ok:
                    ctx.count('followups_ok')
                else:
                    mon.fail('block-left-locked',
                             f"after stimulus {rec} block {b2} does not accept a follow-up event: {r!r}")
            if mon.viol is not None or not alive:
                break
            await harness.settle(2)
        return True

    MON = mon
    try:
        out = harness.run_sim(build, drive, storage=storage)
    finally:
        MON = None
    if out['exc'] is not None and not isinstance(out['exc'], vloop.Deadlock):
        raise out['exc']
    ctx.count('events_entered', mon.entered)
    ctx.count('legit_nested_fsm', mon.legit_nested)
    if not out.get('started') and mon.viol is None:
        # start-up may legitimately fail: recursion during initialisation or a failing probe
        if mon.reentry_illegit or mon.handler_raised or mon.unspecified:
            ctx.count('init_time_recursions')
            if mon.reentry_illegit:
                ctx.count('reentry_attempts_refused', mon.reentry_illegit)
        else:
            err = out['sim'].circuit.error
            if 'not initialized' in str(err):
                ctx.count('uninitialised_input_cases')
            elif isinstance(err, edzed.EdzedUnknownEvent) and any(
                    e.get('bogus') for b in blocks for e in b['edges']):
                # an init routine's output event hit the unknown event type: the error of the
                # init routine fails the start (C05/C09 territory), nothing to judge here
                ctx.count('unknown_event_during_init')
            else:
                mon.fail('startup-failed-without-recursion', f"start failed: {err!r}")
    if mon.viol is not None:
        ctx.violation(case, mon.viol.key, mon.viol.msg, history=outcome)
        ctx.case_done(case, True)
        return
    ctx.case_done(case, mon.entered >= 2, {'blocks': blocks, 'stimuli': case['stimuli'],
                                           'outcome': outcome['stims'],
                                           'events_entered': mon.entered})


def run_startup_loop(case, ctx):
    """
    A loop closed during the start-up: 'inp' is initialised by its own 'put' event; its output
    event reaches a block defined later, which therefore gets its regular initialisation right
    now (the documented exception), and THAT block's output event is addressed back to 'inp',
    still busy with its 'put'.  Refused with an error that stops the simulation.
    """
    import edzed
    kind = case['kind']

    def build():
        inp = edzed.Input('inp', initdef=7, on_output=edzed.Event('dst', 'put'))
        back = edzed.Event('inp', 'put')
        if case.get('via'):
            # ... through one more block (a Repeat forwards the event at once)
            edzed.Repeat('via', dest='inp', etype='put', interval=1000)
            back = edzed.Event('via', 'put')
        if kind == 'OutputFunc':
            edzed.OutputFunc('dst', func=lambda v: v, on_error=None, on_output=back)
        elif kind == 'Repeat':
            edzed.Input('sink', initdef=None)
            edzed.Repeat('dst', dest='sink', etype='put', interval=3600, on_output=back)
        else:
            class Custom(edzed.SBlock):
                def init_regular(self):
                    self.set_output('ready')

                def _event(self, etype, data):
                    return None
            Custom('dst', on_output=back)
        return inp

    async def drive(sim, inp):
        await harness.settle(3)
        return sim.alive()
    out = harness.run_sim(build, drive)
    where = f"start-up loop {case}"
    if out['exc'] is not None:
        raise core.Violation('harness-run-exception', f"{where}: {out['exc']!r}")
    ctx.count('startup_loops')
    err = out['sim'].circuit.error
    if out['started'] or not isinstance(err, edzed.EdzedCircuitError):
        raise core.Violation(
            'recursive-event-did-not-stop-simulation',
            f"{where}: the event sent back to 'inp' while it was handling its own 'put' did not "
            f"stop the simulation: started={out['started']}, Circuit.error={err!r}")


def run_shard(ctx):
    for case in gen(ctx):
        run_case(case, ctx)
    idx = 0
    for kind in ('OutputFunc', 'Repeat', 'Custom'):
        for via in (False, True):
            idx += 1
            if idx % ctx.nshards != ctx.shard:
                continue
            case = {'startup_loop': True, 'kind': kind, 'via': via}
            try:
                run_startup_loop(case, ctx)
            except core.Violation as v:
                ctx.violation(case, v.key, v.msg)
            ctx.case_done(case, True)


def replay(rep, ctx):
    if rep['case'].get('startup_loop'):
        try:
            run_startup_loop(rep['case'], ctx)
        except core.Violation as v:
            ctx.violation(rep['case'], v.key, v.msg)
        ctx.case_done(rep['case'], True)
        return
    run_case(rep['case'], ctx)
