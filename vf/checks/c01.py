"""
C01 - combinational outputs agree with their inputs whenever the circuit is idle.

Invariant at a hook: at every `await sblock_queue.get()` of the simulator (the idle instant) and
right after wait_init() an oracle recomputes every CBlock from the wiring *specification* (not
from the circuit's own connection data), reading only sequential blocks' outputs from the real
circuit.
"""

import itertools

from .. import core, harness, hooks, vloop

PROP = 'C01'
TECHNIQUE = ('runtime monitoring: invariant at the idle hook (sblock_queue.get() on an empty queue) - every CBlock output recomputed from the wiring spec by an independent oracle; exhaustive small topologies + random circuits')
LEVEL = 'exploration'
RULE = ("case = wiring spec (1..4 Input/Counter sources, CBlocks from {Not, And, Or, Xor, Override, "
        "Compare, FuncBlock unpack on/off} with inputs given by object / by name / '_not_NAME' / "
        "Const / plain constant / unnamed and named groups of 0..3, reconvergent fan-out, "
        "CBlock->Input event feedback keeping the combined graph acyclic, random creation order) + "
        "a sequence of bursts (1..4 external events delivered without yielding; Gray-code and "
        "random walks over the input vectors); exhaustive: all topologies of <=2 (quick) / <=3 "
        "(thorough) CBlocks over {Not,And,Or,Xor} with refs to 2 Inputs, earlier blocks, their "
        "'_not_' shortcuts and a constant, x all 4 boolean input vectors (Gray walk) + 2-change "
        "bursts; the oracle runs at every idle point, after wait_init() and hook-free after the "
        "driver yielded; non-trivial = >=1 CBlock output changed after start and >=2 idle points")
ASSUMPTIONS = [
    "the idle instant is the simulator's `await sblock_queue.get()` (observed through a recording "
    "asyncio.Queue subclass injected as edzed.simulator.asyncio.Queue)",
    "outputs compared with '=='; Compare judged as hysteresis fix-point (out => x>=low, "
    "not out => x<high) plus a post-condition on its first (UNDEF -> midpoint) decision",
    "generated circuits keep the worst-case evaluation count of one burst <= 3*n so that the "
    "instability limit (C10) cannot legitimately fire",
    "a fed Input (on_output=Event(input,'put') of a CBlock) equals its feeder's output when idle",
]
REQUIRED = {'compare_hysteresis_zone_evals': 5, 'idle_checks': 500, 'cblock_values_compared': 5000, 'wait_init_checks': 100,
            'cblock_output_changes': 500, 'multi_change_bursts': 100, 'feedback_circuits': 5,
            'hookfree_checks': 300, 'compare_first_decisions': 5, 'inverter_shortcuts': 20}
SHARDS = {'quick': 8, 'thorough': 16}
TIMEOUT = {'quick': 300, 'thorough': 3400}


# ------------------------------------------------------------------------------------------
# spec: {'sources': [{'name','kind','init'}], 'fed': [{'name','feeder','init'}],
#        'cblocks': [{'name','type','args':[ref...],'kw':{iname: ref|[ref...]},'params':{...}}],
#        'order': [names in creation order], 'byobj': bool per ref inside the ref}
# ref: ['blk', name, byobj] | ['not', name] | ['const', value, wrapped]
# ------------------------------------------------------------------------------------------
def dn(v):
    """Decode an exact number kept JSON-friendly in the spec: ['D', text] / ['F', num, den]."""
    if isinstance(v, list) and v and v[0] == 'D':
        import decimal
        return decimal.Decimal(v[1])
    if isinstance(v, list) and v and v[0] == 'F':
        import fractions
        return fractions.Fraction(v[1], v[2])
    return v


def ref_value(ref, val):
    kind = ref[0]
    if kind == 'blk':
        return val[ref[1]]
    if kind == 'not':
        return not val[ref[1]]
    return ref[1]


def ref_deps(ref):
    return [ref[1]] if ref[0] in ('blk', 'not') else []


def func_impl(fname):
    if fname == 'collect':
        return lambda *a, **kw: (a, tuple(sorted(kw.items())))
    if fname == 'typed':
        # sensitive to the TYPE of its arguments (1 / True / 1.0 differ), like a formatter
        return lambda *a, **kw: repr((a, tuple(sorted(kw.items()))))
    if fname == 'collect_packed':
        return lambda args, **kw: (args, tuple(sorted(kw.items())))
    if fname == 'sum':
        return lambda *a: sum(int(x) for x in a)
    if fname == 'sum_packed':
        return lambda args: sum(int(x) for x in args)
    if fname == 'ident':
        return lambda x: x
    if fname == 'add':
        return lambda *a: sum(a)
    if fname == 'count_kw':
        return lambda *a, g=(), s=0: (len(a), sum(1 for x in g if x), bool(s))
    raise AssertionError(fname)


def cblock_ref_output(cb, val, current):
    """Expected output of a CBlock given the values of its inputs (current = real output)."""
    t = cb['type']
    args = [ref_value(r, val) for r in cb['args']]
    kw = {k: (tuple(ref_value(r, val) for r in v) if cb['kwgroup'].get(k) else ref_value(v, val))
          for k, v in cb['kw'].items()}
    if t == 'Not':
        return not args[0]
    if t == 'And':
        return all(args)
    if t == 'Or':
        return any(args)
    if t == 'Xor':
        return bool(sum(1 for v in args if v) % 2)
    if t == 'Override':
        return kw['input'] if kw['override'] == cb['params']['null'] else kw['override']
    if t == 'Func':
        f = func_impl(cb['params']['func'])
        if cb['params']['unpack']:
            return f(*args, **kw)
        return f(tuple(args), **kw)
    if t == 'Compare':
        x = args[0]
        low, high = dn(cb['params']['low']), dn(cb['params']['high'])
        if current is True and x >= low:
            return True
        if current is False and x < high:
            return False
        return ('inconsistent', x, low, high)
    raise AssertionError(t)


def topo_names(spec):
    """Evaluation order of the spec: sources, then cblocks/fed inputs in spec order."""
    return [c['name'] for c in spec['cblocks']]


def oracle(spec, circuit, ctx, where, changed_counter=None):
    """Recompute everything from the SBlocks' real outputs; compare with the real outputs."""
    import edzed
    val = {}
    for s in spec['sources']:
        val[s['name']] = circuit.findblock(s['name']).output
    fed_by = {f['feeder']: f for f in spec['fed']}
    for f in spec['fed']:
        val[f['name']] = circuit.findblock(f['name']).output
    for cb in spec['cblocks']:
        real = circuit.findblock(cb['name']).output
        if real is edzed.UNDEF:
            raise core.Violation('cblock-undef-when-idle', f"{where}: {cb['name']} output is UNDEF")
        exp = cblock_ref_output(cb, val, real)
        ctx.count('cblock_values_compared')
        if isinstance(exp, tuple) and exp and exp[0] == 'inconsistent':
            raise core.Violation(
                'compare-hysteresis', f"{where}: Compare {cb['name']} output {real!r} with input "
                f"{exp[1]!r}, low={exp[2]}, high={exp[3]}")
        if not (real == exp):
            ins = {r[1]: val.get(r[1]) for r in cb['args'] if r[0] != 'const'}
            raise core.Violation(
                f"stale-output-{cb['type']}",
                f"{where}: {cb['type']} {cb['name']} output {real!r}, but its function of the "
                f"current inputs is {exp!r}; args={cb['args']} kw={cb['kw']} inputs now: {ins}")
        val[cb['name']] = real
        f = fed_by.get(cb['name'])
        if f is not None:
            got = val[f['name']]
            if not (got == real):
                raise core.Violation(
                    'fed-input-stale',
                    f"{where}: Input {f['name']} fed by {cb['name']} holds {got!r}, feeder "
                    f"output is {real!r}")
    # inverter shortcuts exist and invert
    for name in spec.get('shortcuts', ()):
        try:
            blk = circuit.findblock('_not_' + name)
        except KeyError:
            # documented (docs/utils.rst, docs/simulation.rst): the shortcut is equivalent to
            # edzed.Not('_not_NAME').connect(NAME), created when the circuit is finalized
            raise core.Violation(
                'shortcut-inverter-missing',
                f"{where}: '_not_{name}' is used as an input but no block of that name exists")
        ctx.count('inverter_shortcuts')
        if blk.output != (not val[name]):
            raise core.Violation('shortcut-inverter', f"{where}: _not_{name} output {blk.output!r} "
                                 f"while {name} is {val[name]!r}")
    return val


def eval_bound(spec, nblocks):
    """
    Upper bound of block evaluations in one burst (see DESIGN C10(b)); (safe, total).

    evals(c)   <= 1 + sum(changes(F) for fed inputs F feeding c) + sum(evals(p) for CBlock preds p)
    changes(F) <= evals(feeder(F));   the '_not_X' shortcut is a CBlock with the single input X.
    """
    import functools
    cbs = {c['name']: c for c in spec['cblocks']}
    fed = {f['name']: f['feeder'] for f in spec['fed']}

    def deps_of(cb):
        deps = []
        for r in cb['args']:
            deps.append(r)
        for k, v in cb['kw'].items():
            deps.extend(v if cb['kwgroup'].get(k) else [v])
        return deps

    @functools.lru_cache(maxsize=None)
    def evals(name):
        """name: CBlock name or ('~' + X) for the inverter of X."""
        n = 1
        if name.startswith('~'):
            preds = [['blk', name[1:]]]
        else:
            preds = deps_of(cbs[name])
        seen = set()
        for r in preds:
            if r[0] == 'const':
                continue
            key = ('~' + r[1]) if r[0] == 'not' else r[1]
            if key in seen:
                continue
            seen.add(key)
            if key.startswith('~') or key in cbs:
                n += evals(key)
            elif key in fed:
                n += evals(fed[key])
        return n

    total = sum(evals(c) for c in cbs) + sum(evals('~' + x) for x in spec.get('shortcuts', ()))
    return total <= 3 * nblocks, total


def build_circuit(spec):
    import edzed
    created = {}
    feeders = {f['feeder']: f['name'] for f in spec['fed']}

    def mkref(r):
        if r[0] == 'blk':
            if r[2] and r[1] in created:
                return created[r[1]]
            return r[1]
        if r[0] == 'not':
            return '_not_' + r[1]
        return edzed.Const(r[1]) if r[2] else r[1]

    byname = {s['name']: ('src', s) for s in spec['sources']}
    byname.update({f['name']: ('fed', f) for f in spec['fed']})
    byname.update({c['name']: ('cb', c) for c in spec['cblocks']})
    for name in spec['order']:
        kind, d = byname[name]
        if kind == 'src':
            if d['kind'] == 'Input' and d.get('faulty_event'):
                # an on_output event whose delivery fails harmlessly for falsy values:
                # the destination (a Counter) does not know the event type 'nosuch'
                if 'sinkc' not in created:
                    created['sinkc'] = edzed.Counter('sinkc', initdef=0)
                created[name] = edzed.Input(name, initdef=d['init'], on_output=edzed.Event(
                    created['sinkc'], edzed.EventCond('inc', 'nosuch'),
                    efilter=edzed.not_from_undef))
            elif d['kind'] == 'Input' and d.get('filter_not'):
                # the inverted output of another block is requested ONLY by an event filter:
                # the '_not_NAME' block is then created by the name resolver
                if 'sinkc' not in created:
                    created['sinkc'] = edzed.Counter('sinkc', initdef=0)
                created[name] = edzed.Input(name, initdef=dn(d['init']), on_output=edzed.Event(
                    created['sinkc'], 'inc', efilter=edzed.IfOutput('_not_' + d['filter_not'])))
            elif d['kind'] == 'Input':
                created[name] = edzed.Input(name, initdef=dn(d['init']))
            else:
                created[name] = edzed.Counter(name, initdef=d['init'])
        elif kind == 'fed':
            created[name] = edzed.Input(name, initdef=d['init'])
        else:
            t = d['type']
            kw = {}
            evs = []
            if name in feeders:
                evs.append(edzed.Event(feeders[name], 'put'))
            for r in spec.get('resets', ()):
                if r['feeder'] == name:
                    # settling feedback through events: limit reached -> reset the counter
                    evs.append(edzed.Event(r['counter'], edzed.EventCond('reset', None)))
            if evs:
                kw['on_output'] = evs[0] if len(evs) == 1 else evs
            if t in ('Not', 'And', 'Or', 'Xor'):
                blk = getattr(edzed, t)(name, **kw)
            elif t == 'Override':
                blk = edzed.Override(name, null_value=d['params']['null'], **kw)
            elif t == 'Compare':
                blk = edzed.Compare(name, low=dn(d['params']['low']), high=dn(d['params']['high']),
                                    **kw)
            else:
                blk = edzed.FuncBlock(name, func=func_impl(d['params']['func']),
                                      unpack=d['params']['unpack'], **kw)
            args = [mkref(r) for r in d['args']]
            kwin = {}
            for k, v in d['kw'].items():
                if d['kwgroup'].get(k):
                    grp = [mkref(r) for r in v]
                    # (iterators: deprecated but documented as accepted, usable only once)
                    kwin[k] = {'tuple': tuple, 'list': list, 'gen': lambda g: (x for x in g),
                               'iter': iter}[d['kwgroup'][k]](grp)
                else:
                    kwin[k] = mkref(v)
            blk.connect(*args, **kwin)
            created[name] = blk
    return created


def run_spec(spec, bursts, ctx, case):
    """Run one circuit; returns (nontrivial, info)."""
    import edzed
    hooks.install_idle_hook()
    state = {'idle': 0, 'viol': None, 'phase': 'init', 'changes': 0, 'prev': None}

    def on_idle(_queue):
        state['idle'] += 1
        if state['viol'] is not None or state['phase'] == 'done':
            return
        circuit = edzed.get_circuit()
        try:
            ctx.count('idle_checks')
            val = oracle(spec, circuit, ctx, f"idle point #{state['idle']} ({state['phase']})")
            snap = tuple(repr(val[c['name']]) for c in spec['cblocks'])
            if state['prev'] is not None and snap != state['prev']:
                d = sum(1 for a, b in zip(snap, state['prev']) if a != b)
                state['changes'] += d
                ctx.count('cblock_output_changes', d)
            state['prev'] = snap
        except core.Violation as v:
            state['viol'] = v
        except Exception as err:     # oracle/harness problem
            state['viol'] = core.Violation('oracle-exception', f"{type(err).__name__}: {err}")

    # Compare: post-condition on every evaluation (documented hysteresis function)
    compare_evals = []

    def build():
        created = build_circuit(spec)
        for cb in spec['cblocks']:
            if cb['type'] == 'Compare':
                blk = created[cb['name']]
                orig = blk.calc_output

                def calc(blk=blk, orig=orig, cb=cb):
                    prev = blk.output
                    res = orig()
                    compare_evals.append((cb, prev, blk._in['_'][0], res))
                    return res
                blk.calc_output = calc
        if spec.get('explicit_finalize'):
            # docs: "The completed circuit may be explicitly finalized."
            ctx.count('explicitly_finalized_circuits')
            edzed.get_circuit().finalize()
        return created

    async def drive(sim, created):
        circuit = sim.circuit
        # right after wait_init()
        ctx.count('wait_init_checks')
        try:
            oracle(spec, circuit, ctx, "right after wait_init()")
        except core.Violation as v:
            state['viol'] = state['viol'] or v
            return False
        state['phase'] = 'running'
        await harness.settle(2)
        for bi, burst in enumerate(bursts):
            idle0 = state['idle']
            if len(burst) > 1:
                ctx.count('multi_change_bursts')
            for name, etype, value in burst:
                try:
                    if etype == 'put':
                        edzed.ExtEvent(created[name], 'put').send(dn(value))
                    else:
                        edzed.ExtEvent(created[name], etype).send()
                except edzed.EdzedUnknownEvent as err:
                    # a configured on_output event failed harmlessly (see 'faulty_event'): the
                    # error goes to the sender, the simulation and the change itself stay
                    ctx.count('harmless_event_failures')
                    if not sim.alive():
                        state['viol'] = state['viol'] or core.Violation(
                            'unknown-event-stopped-simulation', f"burst {bi}: {err!r}")
                        return False
                except Exception as err:
                    state['viol'] = state['viol'] or core.Violation(
                        'external-event-failed', f"burst {bi}: {name}.{etype}({value!r}): {err!r}")
                    return False
            state['phase'] = f"after burst #{bi} {burst}"
            await harness.settle(5)
            if not sim.alive():
                return 'aborted'
            if state['viol'] is not None:
                return False
            # hook-free reading
            ctx.count('hookfree_checks')
            try:
                oracle(spec, circuit, ctx, f"hook-free reading after burst #{bi} {burst}")
            except core.Violation as v:
                state['viol'] = v
                return False
            if state['idle'] == idle0 and any(True for _ in burst):
                # nothing changed (all events were no-ops) is legitimate: no idle transition
                pass
        state['phase'] = 'done'
        return True

    hooks.set_idle_callback(on_idle)
    try:
        if spec.get('storage') == 'shelf':
            # persistent storage of the shelve kind (has sync()/close(), blocking I/O); should
            # the library flush it from a worker thread, the loop may wait for that thread
            ctx.count('shelf_like_storage_runs')
            out = harness.run_sim(build, drive, storage=harness.ShelfStorage(),
                                  setup=lambda loop: setattr(loop, 'real_block', 0.5))
        else:
            out = harness.run_sim(build, drive)
    finally:
        hooks.set_idle_callback(None)
    if out['exc'] is not None and not isinstance(out['exc'], vloop.Deadlock):
        raise out['exc']
    if state['viol'] is not None:
        raise state['viol']
    if not out.get('started'):
        raise core.Violation('startup-failed', f"acyclic circuit did not start: {out['sim'].init_exc}")
    if out['result'] == 'aborted':
        err = out['sim'].circuit.error
        ctx.count('aborted_runs')
        raise core.Violation('simulation-aborted', f"simulation of an acyclic circuit ended: {err!r}")
    for cb, prev, x, res in compare_evals:
        low, high = dn(cb['params']['low']), dn(cb['params']['high'])
        if x >= high:
            exp = True
        elif x < low:
            exp = False
        elif prev is edzed.UNDEF and cb['params'].get('exact'):
            # thresholds of an exact type (Decimal, Fraction, huge int): the mean of the
            # thresholds need not be representable; the first decision inside the zone is
            # not judged
            exp = None
        elif prev is edzed.UNDEF:
            ctx.count('compare_first_decisions')
            mid = (low + high) / 2
            exp = None if x == mid else x > mid     # exact midpoint: either
        else:
            ctx.count('compare_hysteresis_zone_evals')
            exp = bool(prev)
        if exp is not None and res != exp:
            raise core.Violation(
                'compare-function', f"Compare {cb['name']} (low={low}, high={high}) evaluated "
                f"input {x!r} with previous output {prev!r} to {res!r}, documented: {exp!r}")
    if spec['fed']:
        ctx.count('feedback_circuits')
    return state['changes'] >= 1 and state['idle'] >= 2, state


# ------------------------------------------------------------------------------------------
# generators
# ------------------------------------------------------------------------------------------
def enum_topologies(ncb):
    """All topologies with exactly ncb CBlocks over {Not,And,Or,Xor}, 2 Inputs."""
    def refs_for(k):
        refs = [['blk', 'i0', False], ['blk', 'i1', False], ['not', 'i0'], ['not', 'i1'],
                ['const', True, False]]
        for j in range(k):
            refs.append(['blk', f"c{j}", j % 2 == 0])
            refs.append(['not', f"c{j}"])
        return refs

    def blocks_for(k):
        refs = refs_for(k)
        for r in refs:
            yield ('Not', [r])
        for t in ('And', 'Or', 'Xor'):
            for r1 in refs:
                for r2 in refs:
                    yield (t, [r1, r2])
    yield from itertools.product(*[list(blocks_for(k)) for k in range(ncb)])


def topo_to_cblocks(topo, prefix):
    cbs = []
    ren = lambda r: ([r[0], prefix + r[1]] + r[2:]) if r[0] != 'const' and r[1].startswith('c') else r
    for k, (t, args) in enumerate(topo):
        cbs.append({'name': f"{prefix}c{k}", 'type': t, 'args': [ren(list(a)) for a in args],
                    'kw': {}, 'kwgroup': {}, 'params': {}})
    return cbs


OBJVALS = [None, None, 'a', (1,), True, False, 0, '', 2.5]

GRAY_BURSTS = [
    [('i0', 'put', True)], [('i1', 'put', True)], [('i0', 'put', False)], [('i1', 'put', False)],
    [('i0', 'put', True), ('i1', 'put', True)],             # two sources in one burst
    [('i0', 'put', False), ('i0', 'put', True), ('i1', 'put', False)],   # same block twice
    [('i1', 'put', True), ('i1', 'put', False)],            # change and change back
    [('i0', 'put', False), ('i1', 'put', True)],
]


def collect_shortcuts(cblocks):
    names = []
    for cb in cblocks:
        for r in cb['args']:
            if r[0] == 'not' and r[1] not in names:
                names.append(r[1])
        for k, v in cb['kw'].items():
            for r in (v if cb['kwgroup'].get(k) else [v]):
                if r[0] == 'not' and r[1] not in names:
                    names.append(r[1])
    return names


def run_enum_group(topos, ctx, base_index, ncb):
    cblocks = []
    for gi, topo in enumerate(topos):
        cblocks.extend(topo_to_cblocks(topo, f"t{gi}"))
    spec = {'sources': [{'name': 'i0', 'kind': 'Input', 'init': False},
                        {'name': 'i1', 'kind': 'Input', 'init': False}],
            'fed': [], 'cblocks': cblocks,
            'order': ['i0', 'i1'] + [c['name'] for c in cblocks]}
    spec['shortcuts'] = collect_shortcuts(cblocks)
    case = {'enum_ncb': ncb, 'first': base_index, 'count': len(topos)}
    try:
        nontrivial, state = run_spec(spec, GRAY_BURSTS, ctx, case)
    except core.Violation as v:
        ctx.violation({'spec': spec, 'bursts': GRAY_BURSTS}, v.key, v.msg)
        nontrivial = True
    for gi, topo in enumerate(topos):
        ctx.case_done({'enum_ncb': ncb, 'index': base_index + gi}, nontrivial,
                      {'topology': [[t, a] for t, a in topo], 'bursts': GRAY_BURSTS},
                      enumerated=True)


def random_spec(rng):
    nsrc = rng.randrange(1, 5)
    sources = []
    for i in range(nsrc):
        r0 = rng.random()
        if r0 < 0.15:
            sources.append({'name': f"o{i}", 'kind': 'Input', 'init': rng.choice(OBJVALS), 'obj': True})
        elif r0 < 0.7:
            sources.append({'name': f"i{i}", 'kind': 'Input', 'init': rng.random() < 0.5})
            if rng.random() < 0.12:
                sources[-1]['faulty_event'] = True
        else:
            sources.append({'name': f"n{i}", 'kind': 'Counter', 'init': rng.randrange(0, 6)})
    ncb = rng.choice([1, 2, 3, 4, 5, 6, 8, 10, 12])
    nodes = [(s['name'], 'obj' if s.get('obj') else 'num') for s in sources]    # (name, type tag)
    cblocks = []
    fed = []
    for k in range(ncb):
        name = f"c{k}"

        def ref(need_num=False):
            r = rng.random()
            pool = [n for n in nodes if not need_num or n[1] == 'num']
            if r < 0.12 or not pool:
                # (-1 and -2, n and n + 2**61-1 have equal hashes in CPython; 0.0 / -0.0 and
                # 1 / True / 1.0 are equal: each is a constant of its own)
                v = rng.choice([True, False, 0, 1, 5, -1, -2, 3, 3 + 2 ** 61 - 1, 1.0, 2.5]) \
                    if need_num or rng.random() < 0.8 else 'k'
                # a string constant must be wrapped (a plain string is a block name)
                wrapped = isinstance(v, str) or rng.random() < 0.5
                return ['const', v, wrapped], 'num' if not isinstance(v, str) else 'obj'
            n = rng.choice(pool)
            if r < 0.3:
                return ['not', n[0]], 'num'
            return ['blk', n[0], rng.random() < 0.5], n[1]

        t = rng.choice(['Not', 'And', 'Or', 'Xor', 'And', 'Or', 'Xor', 'Override', 'Compare',
                        'Func', 'Func'])
        cb = {'name': name, 'type': t, 'args': [], 'kw': {}, 'kwgroup': {}, 'params': {}}
        tag = 'num'
        if t == 'Not':
            cb['args'] = [ref()[0]]
        elif t in ('And', 'Or', 'Xor'):
            cb['args'] = [ref()[0] for _ in range(rng.choice([0, 1, 2, 2, 3, 3]))]
            if not cb['args'] and rng.random() < 0.5:
                cb['args'] = [ref()[0]]
            if not cb['args']:
                # connect() requires at least one input: an empty named group '_' is not allowed;
                # And/Or/Xor with an empty unnamed group cannot be expressed -> one constant
                cb['args'] = [['const', True, True]]
        elif t == 'Override':
            r1, t1 = ref()
            r2, t2 = ref()
            cb['kw'] = {'input': r1, 'override': r2}
            cb['params']['null'] = rng.choice([None, False, 0])
            tag = 'num' if t1 == t2 == 'num' else 'obj'
        elif t == 'Compare':
            cb['args'] = [ref(need_num=True)[0]]
            low = rng.choice([0, 0.5, 1, 2, 3])
            cb['params'] = {'low': low, 'high': low + rng.choice([0, 0.5, 1, 2])}
        else:
            f = rng.choice(['collect', 'collect_packed', 'sum', 'sum_packed', 'count_kw', 'ident',
                            'typed', 'typed'])
            cb['params'] = {'func': f, 'unpack': not f.endswith('_packed')}
            if f == 'ident':
                r1, tag = ref()
                cb['args'] = [r1]
            elif f.startswith('sum'):
                cb['args'] = [ref(need_num=True)[0] for _ in range(rng.randrange(1, 4))]
            elif f == 'count_kw':
                cb['args'] = [ref()[0] for _ in range(rng.randrange(0, 3))]
                cb['kw'] = {'g': [ref()[0] for _ in range(rng.randrange(0, 4))], 's': ref()[0]}
                cb['kwgroup'] = {'g': rng.choice(['tuple', 'list', 'tuple', 'list', 'gen', 'iter'])}
                tag = 'obj'
            else:
                cb['args'] = [ref()[0] for _ in range(rng.randrange(0, 4))]
                if rng.random() < 0.6 or not cb['args']:
                    cb['kw'] = {'x': ref()[0]}
                if rng.random() < 0.4:
                    cb['kw']['grp'] = [ref()[0] for _ in range(rng.randrange(0, 4))]
                    cb['kwgroup'] = {'grp': rng.choice(['tuple', 'list', 'tuple', 'list', 'gen', 'iter'])}
                tag = 'obj'
        cblocks.append(cb)
        nodes.append((name, tag))
        if rng.random() < 0.15 and tag == 'num':
            fname = f"f{k}"
            fed.append({'name': fname, 'feeder': name, 'init': rng.choice([True, False])})
            nodes.append((fname, 'num'))
    order = [s['name'] for s in sources] + [f['name'] for f in fed] + [c['name'] for c in cblocks]
    rng.shuffle(order)
    spec = {'sources': sources, 'fed': fed, 'cblocks': cblocks, 'order': order}
    spec['shortcuts'] = collect_shortcuts(cblocks)
    if rng.random() < 0.2:
        # an inverted output used by an event filter only (IfOutput accepts '_not_NAME')
        cands = [s for s in sources if s['kind'] == 'Input' and not s.get('obj')
                 and not s.get('faulty_event')]
        target = rng.choice([s['name'] for s in sources if not s.get('obj')] or [None])
        if cands and target is not None:
            rng.choice(cands)['filter_not'] = target
            if target not in spec['shortcuts']:
                spec['shortcuts'] = list(spec['shortcuts']) + [target]
    if rng.random() < 0.25:
        spec['explicit_finalize'] = True
    if rng.random() < 0.15 and not spec.get('explicit_finalize'):
        # (the harness attaches the storage after build(); not possible once finalized)
        spec['storage'] = 'shelf'
    return spec


EXACT_THRESHOLDS = {
    # float() of these is above / below the exact value - a comparator must not care
    'D': [('0.1', '0.3'), ('0.7', '0.7'), ('1.1', '2.2'), ('0.3', '0.6'), ('2.675', '2.675')],
    'F': [((1, 3), (2, 3)), ((1, 10), (3, 10)), ((2, 7), (2, 7)), ((1, 3), (10 ** 20 + 1, 10 ** 20))],
    'big': [(2 ** 53, 2 ** 53 + 1), (2 ** 53 + 1, 2 ** 53 + 1), (2 ** 60 + 1, 2 ** 60 + 3),
            (10 ** 30 + 1, 10 ** 30 + 2)],
}


def exact_compare_spec(rng):
    """
    Compare with thresholds of an exact numeric type (Decimal, Fraction, integers beyond 2**53)
    and inputs of the same type exactly at / just beside the thresholds.
    """
    import decimal
    import fractions
    kind = rng.choice(['D', 'F', 'big'])
    lo, hi = rng.choice(EXACT_THRESHOLDS[kind])
    if kind == 'D':
        enc = lambda d: ['D', str(d)]
        lo, hi, eps = decimal.Decimal(lo), decimal.Decimal(hi), decimal.Decimal('1e-20')
    elif kind == 'F':
        enc = lambda f: ['F', f.numerator, f.denominator]
        lo, hi, eps = fractions.Fraction(*lo), fractions.Fraction(*hi), fractions.Fraction(1, 10 ** 22)
    else:
        enc = lambda i: i
        eps = 1
    cands = [lo - eps, lo, lo + eps, hi - eps, hi, hi + eps, lo - 3 * eps, hi + 3 * eps]
    sources = [{'name': 'x0', 'kind': 'Input', 'init': enc(rng.choice(cands)), 'exactvals': True},
               {'name': 'i1', 'kind': 'Input', 'init': rng.random() < 0.5}]
    via = rng.random() < 0.3
    cblocks = []
    if via:
        cblocks.append({'name': 'pass', 'type': 'Func', 'args': [['blk', 'x0', rng.random() < 0.5]],
                        'kw': {}, 'kwgroup': {}, 'params': {'func': 'ident', 'unpack': True}})
    cblocks.append({'name': 'cmp', 'type': 'Compare',
                    'args': [['blk', 'pass' if via else 'x0', rng.random() < 0.5]], 'kw': {},
                    'kwgroup': {}, 'params': {'low': enc(lo), 'high': enc(hi), 'exact': True}})
    cblocks.append({'name': 'out', 'type': rng.choice(['And', 'Or', 'Xor']),
                    'args': [['blk', 'cmp', True], ['not', 'i1']], 'kw': {}, 'kwgroup': {},
                    'params': {}})
    order = ['x0', 'i1'] + [c['name'] for c in cblocks]
    rng.shuffle(order)
    spec = {'sources': sources, 'fed': [], 'cblocks': cblocks, 'order': order}
    spec['shortcuts'] = collect_shortcuts(cblocks)
    bursts = []
    for _ in range(rng.randrange(6, 16)):
        if rng.random() < 0.85:
            bursts.append([('x0', 'put', enc(rng.choice(cands)))])
        else:
            bursts.append([('i1', 'put', rng.random() < 0.5)])
    return spec, bursts


def type_flip_spec(rng):
    """
    First-level blocks whose successive outputs are EQUAL but distinguishable (1 -> True,
    2 -> 2.0), feeding type-sensitive second-level blocks.
    """
    sources = [{'name': 'i0', 'kind': 'Input', 'init': 1}, {'name': 'i1', 'kind': 'Input', 'init': None},
               {'name': 'i2', 'kind': 'Input', 'init': 1}, {'name': 'i3', 'kind': 'Input', 'init': 1}]
    blank = {'kw': {}, 'kwgroup': {}, 'params': {}}
    cblocks = [
        {'name': 'ovr', 'type': 'Override', 'args': [], 'kw': {'input': ['blk', 'i0', rng.random() < 0.5],
                                                            'override': ['blk', 'i1', False]},
         'kwgroup': {}, 'params': {'null': None}},
        {**blank, 'name': 'tot', 'type': 'Func', 'args': [['blk', 'i2', True], ['blk', 'i3', False]],
         'params': {'func': 'add', 'unpack': True}},
        {**blank, 'name': 'fmt1', 'type': 'Func', 'args': [['blk', 'ovr', rng.random() < 0.5]],
         'params': {'func': 'typed', 'unpack': True}},
        {**blank, 'name': 'fmt2', 'type': 'Func', 'args': [['blk', 'tot', rng.random() < 0.5]],
         'kw': {'x': ['blk', 'ovr', False]}, 'params': {'func': 'typed', 'unpack': True}},
        {**blank, 'name': 'pass1', 'type': 'Func', 'args': [['blk', 'tot', True]],
         'params': {'func': 'ident', 'unpack': True}},
        {**blank, 'name': 'fmt3', 'type': 'Func', 'args': [['blk', 'pass1', True]],
         'params': {'func': 'typed', 'unpack': rng.random() < 0.5}},
    ]
    order = [s['name'] for s in sources] + [c['name'] for c in cblocks]
    rng.shuffle(order)
    spec = {'sources': sources, 'fed': [], 'cblocks': cblocks, 'order': order, 'shortcuts': []}
    bursts = []
    for _ in range(rng.randrange(6, 14)):
        r = rng.random()
        if r < 0.4:
            bursts.append([('i1', 'put', rng.choice([None, True, 1, 1.0]))])
        elif r < 0.5:
            bursts.append([('i0', 'put', rng.choice([1, 0, 2]))])
        else:
            a, b = rng.choice([(1, 1), (0.5, 1.5), (2, 0), (1.0, 1.0), (True, True), (1, 2)])
            bursts.append([('i2', 'put', a), ('i3', 'put', b)])
    return spec, bursts


def wide_spec(rng):
    """
    Hundreds of combinational blocks, each fed directly by the sources (depth 1, a few of depth
    2): one evaluation per block and burst, but the very first evaluation of the circuit is long.
    """
    sources = [{'name': 'i0', 'kind': 'Input', 'init': rng.random() < 0.5},
               {'name': 'i1', 'kind': 'Input', 'init': rng.random() < 0.5},
               {'name': 'n2', 'kind': 'Counter', 'init': rng.randrange(0, 4)}]
    srcrefs = [['blk', 'i0', True], ['blk', 'i1', False], ['blk', 'n2', False], ['not', 'i0'],
               ['const', True, False], ['const', 0, True]]
    cblocks = []
    for k in range(rng.choice([160, 220, 320, 400])):
        t = rng.choice(['Not', 'And', 'Or', 'Xor'])
        refs = list(srcrefs)
        if k >= 20 and rng.random() < 0.1:
            refs.append(['blk', f"c{rng.randrange(0, 20)}", True])
        args = [list(rng.choice(refs))] if t == 'Not' else [list(rng.choice(refs))
                                                             for _ in range(rng.choice([2, 3]))]
        cblocks.append({'name': f"c{k}", 'type': t, 'args': args, 'kw': {}, 'kwgroup': {},
                        'params': {}})
    order = [s['name'] for s in sources] + [c['name'] for c in cblocks]
    rng.shuffle(order)
    spec = {'sources': sources, 'fed': [], 'cblocks': cblocks, 'order': order}
    spec['shortcuts'] = collect_shortcuts(cblocks)
    return spec


def reset_loop_spec(rng):
    """
    A settling event loop: Counter -> Compare (limit reached) -> 'reset' event back to the
    Counter, plus a few consumers.  Enough plain sources keep 3*n above the evaluation count.
    """
    while True:
        spec = random_spec(rng)
        if len(spec['cblocks']) <= 3 and not spec['fed']:
            break
    cnt = {'name': 'n9', 'kind': 'Counter', 'init': rng.randrange(0, 2)}
    limit = rng.choice([2, 3, 4])
    lim = {'name': 'lim', 'type': 'Compare', 'args': [['blk', 'n9', rng.random() < 0.5]], 'kw': {},
           'kwgroup': {}, 'params': {'low': limit, 'high': limit}}
    spec['sources'] = spec['sources'] + [cnt] + [
        {'name': f"ix{i}", 'kind': 'Input', 'init': False} for i in range(4)]
    consumers = [
        {'name': 'lim_not', 'type': 'Not', 'args': [['blk', 'lim', True]], 'kw': {}, 'kwgroup': {}, 'params': {}},
        {'name': 'lim_and', 'type': rng.choice(['And', 'Or', 'Xor']),
         'args': [['blk', 'lim', False], ['blk', 'n9', False]], 'kw': {}, 'kwgroup': {}, 'params': {}},
    ][:rng.choice([1, 2])]
    spec['cblocks'] = spec['cblocks'] + [lim] + consumers
    spec['resets'] = [{'feeder': 'lim', 'counter': 'n9'}]
    order = [s['name'] for s in spec['sources']] + [c['name'] for c in spec['cblocks']]
    rng.shuffle(order)
    spec['order'] = order
    spec['shortcuts'] = collect_shortcuts(spec['cblocks'])
    for src in spec['sources']:
        if src.get('filter_not') and src['filter_not'] not in spec['shortcuts']:
            spec['shortcuts'].append(src['filter_not'])
    return spec


def reset_loop_bursts(rng, spec):
    bursts = []
    for _ in range(rng.randrange(5, 14)):
        if rng.random() < 0.75:
            bursts.append([('n9', 'inc', None)])
        else:
            bursts.extend(random_bursts(rng, spec)[:1])
    return bursts


def random_bursts(rng, spec):
    bursts = []
    for _ in range(rng.randrange(3, 12)):
        burst = []
        # (now and then a storm: dozens of changes of sequential blocks before the simulator
        # gets a chance to react - far more than 3 x the number of blocks)
        for _ in range(rng.choice([1, 1, 2, 3, 4]) if rng.random() < 0.93
                       else rng.randrange(30, 120)):
            s = rng.choice(spec['sources'])
            if s.get('obj'):
                burst.append((s['name'], 'put', rng.choice(OBJVALS)))
            elif s['kind'] == 'Input':
                burst.append((s['name'], 'put', rng.choice([True, False, True, False, 0, 1, 3])))
            else:
                op = rng.choice(['inc', 'dec', 'put'])
                burst.append((s['name'], op, rng.randrange(0, 6) if op == 'put' else None))
        bursts.append(burst)
    return bursts


def run_shard(ctx):
    rng = ctx.rng('gen')
    quick = ctx.tier == 'quick'
    shard, nsh = ctx.shard, ctx.nshards
    group = 24
    for ncb in ((1, 2) if quick else (1, 2, 3)):
        batch = []
        base = 0
        for ti, topo in enumerate(enum_topologies(ncb)):
            if (ti // group) % nsh != shard:
                continue
            if not batch:
                base = ti
            batch.append(topo)
            if len(batch) == group:
                run_enum_group(batch, ctx, base, ncb)
                batch = []
        if batch:
            run_enum_group(batch, ctx, base, ncb)
    n = 250 if quick else 6000
    done = 0
    while done < n:
        loop = rng.random() < 0.12
        wide = not loop and rng.random() < 0.015
        exact = not loop and not wide and rng.random() < 0.09
        if exact and rng.random() < 0.45:
            spec, exact_bursts = type_flip_spec(rng)
            ctx.count('equal_but_distinguishable_value_circuits')
        elif exact:
            spec, exact_bursts = exact_compare_spec(rng)
            ctx.count('compare_exact_number_type_circuits')
        else:
            spec = reset_loop_spec(rng) if loop else wide_spec(rng) if wide else random_spec(rng)
        if wide:
            ctx.count('circuits_with_hundreds_of_cblocks')
        nblocks = len(spec['order']) + len(spec['shortcuts'])
        ok, total = eval_bound(spec, nblocks)
        if not ok:
            ctx.count('discarded_eval_bound')
            continue
        done += 1
        bursts = exact_bursts if exact else reset_loop_bursts(rng, spec) if loop \
            else random_bursts(rng, spec)
        if loop:
            ctx.count('event_loop_circuits')
        case = {'spec': spec, 'bursts': bursts}
        try:
            nontrivial, state = run_spec(spec, bursts, ctx, case)
        except core.Violation as v:
            ctx.violation(case, v.key, v.msg)
            ctx.case_done(case, True)
            continue
        ctx.case_done(case, nontrivial, {'spec': spec, 'bursts': bursts[:4],
                                         'idle_points': state['idle'],
                                         'cblock_changes_seen': state['changes']})
    ctx.exhaustive = True


def coverage_extra(tier, counters, sets):
    return {'exhaustive_slice': (
        "all topologies with 1 and 2 CBlocks over {Not,And,Or,Xor} (80 + 12320), "
        if tier == 'quick' else
        "all topologies with 1, 2 and 3 CBlocks over {Not,And,Or,Xor} (80 + 12320 + 3104640), ")
        + "refs to 2 Inputs, earlier blocks, '_not_' shortcuts and a constant; 8 bursts covering all "
          "4 input vectors, two sources per burst, same block twice, change-and-back"}


def replay(rep, ctx):
    case = rep['case']
    spec, bursts = case['spec'], case['bursts']
    bursts = [[tuple(e) for e in b] for b in bursts]
    try:
        run_spec(spec, bursts, ctx, case)
    except core.Violation as v:
        ctx.violation(case, v.key, v.msg)
    ctx.case_done(case, True)
