"""
C14 - external events enter only a running circuit and are always marked as external.

History at the application boundary over life-cycle phases x data shapes x destination kinds,
plus the name-space rule that keeps the '_ext_' mark unforgeable.
"""

import asyncio
import itertools
import os
import signal

from .. import core, harness, vloop

PROP = 'C14'
TECHNIQUE = ('runtime monitoring: history at the application boundary (ExtEvent.send outcome and probe deliveries) over enumerated life-cycle phases x data shapes x destination kinds')
LEVEL = 'exploration'
RULE = ("case = (life-cycle phase in {no task, task created, initialising, running, abort "
        "requested, inside stop(), inside stop_async(), finished after shutdown, finished after "
        "error, finished after a 'shutdown' control event, after SIGTERM}) x (data shape: value "
        "present/absent, default/own/prefixed/empty/arbitrary source strings, extra items) x "
        "(destination: probe, Input, Counter, FSM); the probe destination and wrappers record what "
        "was delivered; oracle: delivered (with the handler's return value) iff the phase is "
        "'initialising' or 'running', otherwise EdzedInvalidState and nothing delivered; source "
        "starts with '_ext_'; other items unchanged.  Name space: every block class x names "
        "starting with '_' must be refused, auto-named blocks of adversarial class names must not "
        "get a name starting with '_ext_'.  distinct = canonical case; non-trivial = a send() call "
        "was judged or a constructor call was judged")
ASSUMPTIONS = [
    "the phases are produced with the public API only (run_forever task, wait_init, abort, "
    "shutdown, SIGTERM through edzed.run) on the virtual loop",
    "documented: the circuit is ready (accepts external events) immediately after the start, "
    "i.e. also while blocks are still initialising",
]
REQUIRED = {'sends_judged': 300, 'delivered': 100, 'refused': 100, 'name_checks': 100,
            'phases_seen': 16, 'autoname_checks': 10}
SHARDS = {'quick': 4, 'thorough': 16}
TIMEOUT = {'quick': 300, 'thorough': 3000}

PHASES = ['no_task', 'finalized_no_task', 'task_created', 'run_task_created', 'start_refused_eager', 'first_iteration', 'initialising', 'running', 'abort_requested',
          'shutdown_called', 'ctrl_shutdown_requested', 'in_stop',
          'in_stop_async', 'finished_shutdown', 'finished_error', 'finished_ctrl', 'after_sigterm',
          'abandoned_loop_abort', 'failing_now', 'running_reused_object']
DELIVER = {'first_iteration', 'initialising', 'running', 'running_reused_object'}
DESTS = ['probe', 'input', 'counter', 'fsm', 'pinput', 'pfsm']   # p* = persistent, storage set

SHAPES = [
    # (ctor_source, positional value or NOVALUE, kwargs)
    {'ctor': None, 'value': True, 'kw': {}},
    {'ctor': None, 'value': False, 'kw': {}},
    {'ctor': 'panel', 'value': True, 'kw': {}},
    {'ctor': '_ext_panel', 'value': True, 'kw': {}},
    {'ctor': None, 'value': True, 'kw': {'source': 'web'}},
    {'ctor': 'panel', 'value': True, 'kw': {'source': '_ext_web'}},
    {'ctor': None, 'value': True, 'kw': {'source': ''}},
    {'ctor': '', 'value': False, 'kw': {}},
    {'ctor': None, 'value': True, 'kw': {'source': 'a b/c:_ext_', 'extra': {'k': [1, 2]}, 'n': None}},
    {'ctor': None, 'value': True, 'kw': {'source': '_ext', 'x': 0}},
    {'ctor': None, 'value': True, 'kw': {'source': '_not_b', 'trigger': 'output', 'previous': 1}},
    {'ctor': None, 'value': True, 'kw': {'source': 7}},        # TypeError expected
    {'ctor': '_x', 'value': True, 'kw': {}},
    {'ctor': '_ext', 'value': True, 'kw': {}},
    {'ctor': '_', 'value': True, 'kw': {'y': ''}},
    {'ctor': None, 'value': True, 'kw': {'source': '_x'}},
    {'ctor': None, 'value': True, 'kw': {'source': '_ext_'}},
    # data items whose names coincide with parameter names used inside the library
    {'ctor': None, 'value': True, 'kw': {'etype': 'x', 'blk': 1}},
    {'ctor': 'panel', 'value': True, 'kw': {'etype': 'put', 'data': {'a': 1}, 'dest': 'd'}},
]


def expected_source(shape):
    ctor = shape['ctor']
    default = '_ext_' if ctor is None else (ctor if ctor.startswith('_ext_') else '_ext_' + ctor)
    if 'source' in shape['kw']:
        s = shape['kw']['source']
        if not isinstance(s, str):
            return TypeError
        return s if s.startswith('_ext_') else '_ext_' + s
    return default


def run_phase_case(case, ctx):
    import edzed
    phase, shape, destkind = case['phase'], SHAPES[case['shape']], case['dest']
    hist = core.History()
    res = {}

    class Probe(edzed.SBlock):
        def init_regular(self):
            self.set_output(0)

        def _event(self, etype, data):
            hist.log('recv', self.name, etype, dict(data))
            return ('handled', etype)

    class Gate(edzed.AddonAsync, edzed.SBlock):
        """Keeps the circuit in the initialising phase / sends from inside the clean-up."""
        def init_regular(self):
            self.set_output(0)

        async def init_async(self):
            if self.x_hold:
                await asyncio.sleep(5)

        def stop(self):
            if self.x_phase == 'in_stop':
                do_send('in_stop')
            super().stop()

        async def stop_async(self):
            await asyncio.sleep(0.1)
            if self.x_phase == 'in_stop_async':
                do_send('in_stop_async')

    class Fsm(edzed.FSM):
        STATES = ['off', 'on']
        EVENTS = [['put', None, 'on']]

        def cond_put(self):
            hist.log('recv', self.name, 'put', dict(edzed.fsm_event_data.get()))
            return True

        # the actions of the transition see the data of the external event as well, also
        # after the on_exit events were handled by another FSM in between
        def exit_off(self):
            hist.log('recv_action', self.name, 'exit', dict(edzed.fsm_event_data.get()))

        def exit_on(self):
            hist.log('recv_action', self.name, 'exit', dict(edzed.fsm_event_data.get()))

        def enter_on(self):
            hist.log('recv_action', self.name, 'enter', dict(edzed.fsm_event_data.get()))

    class Other(edzed.FSM):
        STATES = ['a', 'b']
        EVENTS = [['nudge', 'a', 'b'], ['nudge', 'b', 'a']]

        def enter_a(self):
            hist.log('other_action', dict(edzed.fsm_event_data.get()))

        def enter_b(self):
            hist.log('other_action', dict(edzed.fsm_event_data.get()))

    objs = {}

    def do_send(tag):
        dest = objs['dest']
        n0 = len(hist.entries)
        try:
            ctor_args = () if shape['ctor'] is None else (shape['ctor'],)
            ev = objs.get('reused_ev') or edzed.ExtEvent(
                dest if case['byobj'] else dest.name, 'put', *ctor_args)
            if shape['value'] is True:
                ret = ev.send(case['val'], **shape['kw'])
            else:
                ret = ev.send(**shape['kw'])
            res['outcome'] = ('ret', ret)
        except Exception as err:
            res['outcome'] = ('exc', type(err).__name__, str(err)[:80])
        res['recv'] = [e for e in hist.entries[n0:] if e[2] == 'recv']
        res['recv_action'] = [e for e in hist.entries[n0:] if e[2] == 'recv_action']
        res['tag'] = tag
        res['dest_output'] = dest.output

    def build():
        if destkind == 'probe':
            dest = Probe('dest')
        elif destkind == 'pinput_uninit':
            # persistent, nothing saved, no initdef: still uninitialised while the circuit is
            # being initialised; its validator rejects every value the harness sends
            dest = edzed.Input('dest', persistent=True, allowed=['vf-never-sent'])
        elif destkind in ('input', 'pinput'):
            dest = edzed.Input('dest', initdef=0, persistent=destkind == 'pinput')
        elif destkind == 'counter':
            dest = edzed.Counter('dest')
        else:
            Other('other')
            dest = Fsm('dest', persistent=destkind == 'pfsm',
                       on_exit_off=edzed.Event('other', 'nudge'),
                       on_exit_on=edzed.Event('other', 'nudge'))
        if destkind.startswith('p'):
            edzed.get_circuit().set_persistent_data({})
        objs['dest'] = dest
        Gate('gate', x_hold=phase == 'initialising', x_phase=phase, init_timeout=10, stop_timeout=5)
        if phase in ('finished_ctrl', 'ctrl_shutdown_requested'):
            objs['trig'] = edzed.Input('trig', initdef=0, on_output=edzed.Event(
                '_ctrl', 'shutdown', efilter=edzed.not_from_undef))
        if phase in ('finished_error', 'failing_now'):
            objs['zero'] = edzed.Input('zero', initdef=0)
            objs['bad'] = edzed.FuncBlock('bad', func=lambda x: 1 // (1 - x)).connect(objs['zero'])
        return dest

    async def main(loop):
        edzed.reset_circuit()
        dest = build()
        circuit = edzed.get_circuit()
        if phase == 'no_task':
            do_send(phase)
            return
        if phase == 'finalized_no_task':
            circuit.finalize()
            do_send(phase)
            return
        if phase == 'after_sigterm':
            async def supporting():
                await circuit.wait_init()
                os.kill(os.getpid(), signal.SIGTERM)
                await asyncio.sleep(50)
            await edzed.run(supporting())
            do_send(phase)
            return
        if phase == 'start_refused_eager':
            # the start is refused by the pre-flight check (eager task factory, Python 3.12+):
            # the circuit never ran, an application that survives the RuntimeError and sends an
            # event must get EdzedInvalidState
            loop.set_task_factory(asyncio.eager_task_factory)
            try:
                await circuit.run_forever()
            except RuntimeError as err:
                res['eager_refused'] = 'eager' in str(err)
            except BaseException as err:    # pylint: disable=broad-except
                res['eager_refused'] = repr(err)
            finally:
                loop.set_task_factory(None)
            do_send(phase)
            return
        if phase == 'run_task_created':
            # edzed.run() with a supporting coroutine has created the simulation task, which has
            # not made its first step yet; a task that was already scheduled sends an event
            async def supporting():
                await asyncio.sleep(50)

            async def sender():
                res['run_task_state'] = circuit.is_finalized()
                do_send(phase)
            runtask = asyncio.create_task(edzed.run(supporting()))
            await asyncio.create_task(sender())
            await asyncio.sleep(0)
            await circuit.shutdown()
            await runtask
            return
        if phase == 'running_reused_object':
            ctor_args = () if shape['ctor'] is None else (shape['ctor'],)
            objs['reused_ev'] = edzed.ExtEvent(dest if case['byobj'] else dest.name, 'put', *ctor_args)
            try:
                objs['reused_ev'].send(0)
                res['early_use'] = 'delivered'
            except edzed.EdzedInvalidState:
                res['early_use'] = 'refused'
            except Exception as err:    # pylint: disable=broad-except
                res['early_use'] = repr(err)
        task = asyncio.create_task(circuit.run_forever())
        if phase == 'task_created':
            do_send(phase)
            await asyncio.sleep(0)
            await circuit.shutdown()
            return
        if phase == 'first_iteration':
            # the documented low-level start: the simulation task has made its first step (the
            # blocks are started, the circuit accepts events), none of the initialisation
            # passes has run yet
            await asyncio.sleep(0)
            res['first_iteration_state'] = (circuit.is_ready(), task.done())
            do_send(phase)
            await circuit.wait_init()
            await circuit.shutdown()
            return
        if phase == 'initialising':
            await asyncio.sleep(1)      # gate.init_async is sleeping (virtual time)
            res['initialising_state'] = (circuit.is_ready(), task.done())
            do_send(phase)
            if destkind == 'pinput_uninit':
                try:
                    await circuit.shutdown()
                except Exception as err:    # pylint: disable=broad-except
                    res['shutdown_exc'] = repr(err)
                return
            await circuit.wait_init()
            await circuit.shutdown()
            return
        await circuit.wait_init()
        if phase == 'running_reused_object':
            # the same ExtEvent object was used (and refused) before the start
            do_send(phase)
        elif phase == 'failing_now':
            # a combinational block fails in the simulation task; in the very next iteration of
            # the loop - the clean-up has not begun yet - another task sends an event
            edzed.ExtEvent(objs['zero']).send(1)
            await asyncio.sleep(0)
            res['failing_now_state'] = (task.done(), repr(circuit.error)[:60])
            do_send(phase)
        elif phase == 'running':
            do_send(phase)
        elif phase == 'abort_requested':
            circuit.abort(RuntimeError('vf abort'))
            do_send(phase)
        elif phase == 'shutdown_called':
            # another task has called shutdown() and waits for the simulation task, which has
            # not been resumed yet: the circuit is shutting down, events must be refused
            sdtask = asyncio.create_task(circuit.shutdown())
            await asyncio.sleep(0)      # sdtask runs its first step, then we are resumed
            res['shutdown_called_state'] = (sdtask.done(), task.done())
            do_send(phase)
            await sdtask
            return
        elif phase == 'ctrl_shutdown_requested':
            # a 'shutdown' control event was handled; the simulation task has not reacted yet
            edzed.ExtEvent(objs['trig']).send(1)
            do_send(phase)
        elif phase in ('in_stop', 'in_stop_async'):
            pass
        elif phase == 'finished_ctrl':
            edzed.ExtEvent(objs['trig']).send(1)
            await asyncio.sleep(1)
            try:
                await task
            except BaseException:
                pass
            do_send(phase)
            return
        elif phase == 'finished_error':
            edzed.ExtEvent(circuit.findblock('zero')).send(1)      # division by zero in 'bad'
            await asyncio.sleep(1)
            do_send(phase)
        try:
            await circuit.shutdown()
        except Exception:
            pass
        if phase == 'finished_shutdown':
            do_send(phase)

    if phase == 'abandoned_loop_abort':
        # the circuit was started in an event loop that was then closed with the simulation task
        # still pending (an abandoned loop); the application stops the circuit with abort():
        # Task.cancel() may fail there ('Event loop is closed'), still the circuit is stopped
        import warnings
        loop = vloop.VirtualLoop()

        async def first_part():
            edzed.reset_circuit()
            build()
            circuit = edzed.get_circuit()
            asyncio.create_task(circuit.run_forever())
            await circuit.wait_init()
        with warnings.catch_warnings():
            warnings.simplefilter('ignore')
            loop.run_until_complete(first_part())
            loop.close()
            circuit = edzed.get_circuit()
            try:
                circuit.abort(RuntimeError('vf: stop of an abandoned circuit'))
                res['abort_exc'] = None
            except RuntimeError as err:
                res['abort_exc'] = repr(err)
            do_send(phase)
            try:
                edzed.reset_circuit()
            except Exception as err:    # pylint: disable=broad-except
                res['reset_exc'] = repr(err)
            import gc
            gc.collect()
        return res, hist
    loop, _, exc = vloop.run(main)
    edzed.reset_circuit()
    if exc is not None and not isinstance(exc, vloop.Deadlock):
        res['main_exc'] = exc
    return res, hist


def judge_phase(case, res, ctx):
    import edzed
    phase, shape, destkind = case['phase'], SHAPES[case['shape']], case['dest']
    if res.get('main_exc') is not None:
        raise core.Violation(
            'run-ended-with-unexpected-exception',
            f"phase={phase} dest={destkind}: the scenario (start, send, shutdown) ended with "
            f"{res['main_exc']!r}; send() outcome {res.get('outcome')}")
    if 'outcome' not in res:
        raise core.Violation('harness-phase-not-reached', f"phase {phase} never reached")
    ctx.count('sends_judged')
    ctx.seen('phases_seen', phase)
    out = res['outcome']
    recv = res['recv']
    src = expected_source(shape)
    where = f"phase={phase} dest={destkind} shape={shape}"
    if phase == 'start_refused_eager' and res.get('eager_refused') is not True:
        raise core.Violation('harness-phase-not-reached', f"{where}: {res.get('eager_refused')!r}")
    if phase == 'shutdown_called' and res.get('shutdown_called_state') != (False, False):
        raise core.Violation('harness-phase-not-reached', f"{where}: {res.get('shutdown_called_state')}")
    if phase == 'first_iteration' and res.get('first_iteration_state') != (True, False):
        raise core.Violation('harness-phase-not-reached', f"{where}: {res.get('first_iteration_state')}")
    if phase == 'initialising' and res.get('initialising_state') != (True, False):
        raise core.Violation('harness-phase-not-reached', f"{where}: {res.get('initialising_state')}")
    if phase not in DELIVER:
        ctx.count('refused')
        if out[0] != 'exc' or out[1] != 'EdzedInvalidState':
            if out[0] == 'exc' and out[1] == 'TypeError' and src is TypeError:
                pass    # argument error detected before the state check: acceptable
            else:
                raise core.Violation(
                    f'send-not-refused-{phase}',
                    f"{where}: send() outcome {out}, expected EdzedInvalidState")
        if recv:
            raise core.Violation(f'delivered-when-not-running-{phase}',
                                 f"{where}: event delivered although refused: {recv}")
        if destkind in ('input', 'pinput', 'counter') and res['dest_output'] not in (0, edzed.UNDEF):
            raise core.Violation(f'delivered-when-not-running-{phase}',
                                 f"{where}: destination output changed to {res['dest_output']!r}")
        return
    # must be delivered
    if src is TypeError:
        if out[0] != 'exc' or out[1] != 'TypeError' or recv:
            raise core.Violation('non-string-source-accepted', f"{where}: outcome {out}, recv {recv}")
        return
    ctx.count('delivered')
    if destkind == 'pinput_uninit' and shape['value'] is True:
        # a running (initialising) circuit: the event is handled, the validator rejects the value
        ctx.count('rejected_by_uninitialised_persistent_block')
        if out != ('ret', False) or res['dest_output'] is not edzed.UNDEF:
            raise core.Violation(
                'return-value', f"{where}: send() outcome {out}, destination output "
                f"{res['dest_output']!r}; expected the handler's result False")
        if res.get('shutdown_exc'):
            raise core.Violation('run-ended-with-unexpected-exception',
                                 f"{where}: shutdown() raised {res['shutdown_exc']}")
        return
    if shape['value'] is not True and destkind in ('input', 'pinput', 'pinput_uninit', 'counter'):
        # 'put' without its value: a parameter error reported to the caller (see C09/C20)
        if out[:2] != ('exc', 'TypeError'):
            raise core.Violation('missing-value-not-reported', f"{where}: outcome {out}")
        return
    if out[0] != 'ret':
        raise core.Violation(f'send-refused-while-{phase}', f"{where}: send() raised {out}")
    exp = dict(shape['kw'])
    if shape['value'] is True:
        exp['value'] = case['val']
    exp['source'] = src
    if destkind in ('probe', 'fsm', 'pfsm'):
        if len(recv) != 1:
            raise core.Violation('delivery-count', f"{where}: {len(recv)} deliveries")
        data = recv[0][5]
        if not str(data.get('source', '')).startswith('_ext_'):
            raise core.Violation('external-mark-missing', f"{where}: source {data.get('source')!r}")
        if data != exp:
            raise core.Violation('data-changed', f"{where}: delivered {data}, expected {exp}")
        for e in res.get('recv_action', ()):
            ctx.count('fsm_actions_data_checked')
            if e[5] != exp:
                raise core.Violation(
                    'data-changed',
                    f"{where}: the {e[4]} action of the destination FSM read {e[5]} through "
                    f"fsm_event_data, expected {exp}")
        if destkind != 'probe' and len(res.get('recv_action', ())) != 2:
            raise core.Violation('delivery-count', f"{where}: actions run: {res.get('recv_action')}")
        want = ('handled', 'put') if destkind == 'probe' else True
        if out[1] != want:
            raise core.Violation('return-value', f"{where}: send() returned {out[1]!r}, handler {want!r}")
    elif destkind in ('input', 'pinput'):
        if 'value' in exp:
            if out[1] is not True or res['dest_output'] != exp['value']:
                raise core.Violation('return-value', f"{where}: returned {out[1]!r}, output {res['dest_output']!r}")
    elif destkind == 'counter':
        if 'value' in exp and (out[1] != exp['value'] or res['dest_output'] != exp['value']):
            raise core.Violation('return-value', f"{where}: returned {out[1]!r}, output {res['dest_output']!r}")


def name_checks(ctx, rng, n):
    """Reserved names and the auto-naming rule."""
    import edzed

    class P(edzed.SBlock):
        pass

    class T(edzed.FSM):
        STATES = ['a']

    def ctors():
        yield 'Input', lambda name, **kw: edzed.Input(name, **kw)
        yield 'Counter', lambda name, **kw: edzed.Counter(name, **kw)
        yield 'Not', lambda name, **kw: edzed.Not(name, **kw)
        yield 'And', lambda name, **kw: edzed.And(name, **kw)
        yield 'FuncBlock', lambda name, **kw: edzed.FuncBlock(name, func=len, **kw)
        yield 'Compare', lambda name, **kw: edzed.Compare(name, low=0, high=1, **kw)
        yield 'Override', lambda name, **kw: edzed.Override(name, **kw)
        yield 'Timer', lambda name, **kw: edzed.Timer(name, **kw)
        yield 'InputExp', lambda name, **kw: edzed.InputExp(name, duration=1, **kw)
        yield 'Repeat', lambda name, **kw: edzed.Repeat(name, dest='x', interval=1, **kw)
        yield 'ValuePoll', lambda name, **kw: edzed.ValuePoll(name, func=len, interval=1, **kw)
        yield 'OutputFunc', lambda name, **kw: edzed.OutputFunc(name, func=len, on_error=None, **kw)
        yield 'OutputAsync', lambda name, **kw: edzed.OutputAsync(
            name, coro=len, mode='w', on_error=None, **kw)
        yield 'InitAsync', lambda name, **kw: edzed.InitAsync(name, init_coro=[len], **kw)
        yield 'TimeDate', lambda name, **kw: edzed.TimeDate(name, **kw)
        yield 'TimeSpan', lambda name, **kw: edzed.TimeSpan(name, **kw)
        yield 'probe', lambda name, **kw: P(name, **kw)
        yield 'fsm', lambda name, **kw: T(name, **kw)
        yield 'ControlBlock', lambda name, **kw: edzed.ControlBlock(name, **kw)
    alphabet = 'abcXYZ019_ -.'
    for cname, ctor in ctors():
        names = ['_', '_x', '_ext_', '_ext_panel', '__', '_not_a', '_ctrl', '_1']
        for _ in range(n):
            names.append('_' + ''.join(rng.choice(alphabet) for _ in range(rng.randrange(0, 8))))
        for name in names:
            edzed.reset_circuit()
            case = {'kind': 'reserved-name', 'cls': cname, 'name': name}
            ctx.count('name_checks')
            try:
                ctor(name)
            except ValueError:
                pass
            except Exception as err:
                ctx.violation(case, 'reserved-name-wrong-exception', f"{cname}({name!r}) raised {err!r}")
            else:
                ctx.violation(case, 'reserved-name-accepted',
                              f"{cname}({name!r}) was created although names starting with '_' "
                              "are reserved")
            ctx.case_done(case, True, case)
        # names that merely CONTAIN a reserved name (surrounding whitespace ...): refused or
        # kept as they are - the block must not end up with a name beginning with '_'
        for name in [' _ext_gw', '\t_ext_gw ', '\n_ext_', ' _x', '  _ctrl', ' _not_a ', 'x_ext_',
                     ' ' + ''.join(rng.choice(alphabet) for _ in range(4))]:
            edzed.reset_circuit()
            case = {'kind': 'almost-reserved-name', 'cls': cname, 'name': name}
            ctx.count('name_checks')
            try:
                blk = ctor(name)
            except Exception:       # pylint: disable=broad-except
                ctx.case_done(case, True, case)
                continue
            if str(blk.name).startswith('_'):
                ctx.violation(case, 'reserved-name-accepted',
                              f"{cname}({name!r}) was created and is called {blk.name!r}: names "
                              "starting with '_' are reserved (events it sends carry that source)")
            ctx.case_done(case, True, case)
        # a legal name is accepted
        edzed.reset_circuit()
        try:
            ctor('x' + ''.join(rng.choice(alphabet) for _ in range(4)))
        except Exception as err:
            ctx.violation({'kind': 'legal-name', 'cls': cname}, 'legal-name-refused', f"{cname}: {err!r}")
    # auto-named blocks: the automatic name must not forge the external mark
    for clsname in ['ext', 'ext_', 'ext_panel', 'Ext', 'EXT', 'e', 'xt', 'ext2', 'not', 'ctrl', 'P',
                    '_ext', 'ext__']:
        edzed.reset_circuit()
        cls = type(clsname, (edzed.SBlock,), {})
        case = {'kind': 'autoname', 'cls': clsname}
        ctx.count('autoname_checks')
        try:
            blk = cls(None)
        except Exception:
            ctx.case_done(case, True, case)
            continue
        if blk.name.startswith('_ext_'):
            ctx.violation(case, 'autoname-forges-ext-mark',
                          f"an auto-named block of class {clsname!r} is called {blk.name!r}: events "
                          "it sends carry a source starting with '_ext_'")
        ctx.case_done(case, True, {'class': clsname, 'auto_name': blk.name})
    edzed.reset_circuit()


def gen(ctx):
    rng = ctx.rng('gen')
    combos = list(itertools.product(PHASES, range(len(SHAPES)), DESTS))
    for i, (phase, shape, dest) in enumerate(combos):
        if i % ctx.nshards != ctx.shard:
            continue
        yield {'phase': phase, 'shape': shape, 'dest': dest, 'byobj': i % 2 == 0,
               'val': [1, 0, 3, False, 7, '', None][i % 7], 'enum': True}
    for k in range(len(SHAPES)):
        if k % ctx.nshards == ctx.shard:
            yield {'phase': 'initialising', 'shape': k, 'dest': 'pinput_uninit', 'byobj': k % 2 == 0,
                   'val': [1, 0, 3, False, 7, '', None][k % 7], 'enum': True}
    extra = 200 if ctx.tier == 'quick' else 30000
    for _ in range(extra):
        yield {'phase': rng.choice(PHASES), 'shape': rng.randrange(len(SHAPES)),
               'dest': rng.choice(DESTS), 'byobj': rng.random() < 0.5,
               'val': rng.choice([1, 2, 3, 5, 0, False, None, '', 0.0])}


def run_case(case, ctx):
    try:
        res, hist = run_phase_case(case, ctx)
        judge_phase(case, res, ctx)
    except core.Violation as v:
        ctx.violation(case, v.key, v.msg)
        ctx.case_done(case, True)
        return
    ctx.case_done(case, True, {'case': case, 'shape': SHAPES[case['shape']],
                               'outcome': res.get('outcome'), 'delivered': res.get('recv')},
                  enumerated=case.get('enum', False))


def run_shard(ctx):
    for case in gen(ctx):
        run_case(case, ctx)
    if ctx.shard == 0:
        name_checks(ctx, ctx.rng('names'), 12 if ctx.tier == 'quick' else 60)
    ctx.exhaustive = True


def replay(rep, ctx):
    case = rep['case']
    if 'phase' in case:
        run_case(case, ctx)
    else:
        name_checks(ctx, ctx.rng('names'), 6)
