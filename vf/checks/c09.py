"""
C09 - the first error stops the simulation and is the one that gets reported.

Fault enumeration: 1..3 error sources of different kinds fired at chosen virtual instants
(incl. the same instant); every source is harness code that logs the moment it fires, so the
delivery order is observed, not inferred.
"""

import asyncio
import itertools
import os
import signal
import sys

from .. import core, harness, probes, vloop

PROP = 'C09'
TECHNIQUE = ('runtime monitoring with fault enumeration: every error source logs the instant it fires; the exception reported by run_forever/shutdown/run/Circuit.error is compared with the first delivered one')
LEVEL = 'fault_enumeration'
RULE = ("case = (mode: run_forever task driven by the harness / edzed.run() with supporting "
        "tasks) x ordered tuple of 1..3 error sources from {handler error H, calc_output error C, "
        "failing monitored task M, sync-init error I, abort() A, 'abort' control event E, "
        "shutdown()/cancel X, failing supporting task S, returning supporting task R, cancel of "
        "the run() task K, SIGTERM T, abort() before the start B} x timing pattern (distinct "
        "instants or the same virtual instant) with optional harmless faults interleaved (unknown "
        "event type, missing parameter, failing async init, failing restore, failing clean-up); "
        "quick: all singles and ordered pairs x 2 timings, thorough: also all ordered triples; "
        "non-trivial = at least one source fired and the reported exception was compared")
ASSUMPTIONS = [
    "each source logs itself at the instant it raises/calls; the first fatal entry of that log "
    "is 'the first error delivered to the simulator'",
    "the reported error is matched by identity or through __cause__ (handler errors and 'abort' "
    "events are wrapped in EdzedCircuitError by design)",
    "several failing supporting tasks are generated only when one of them is the first both in "
    "time and in argument order (coroutine #0 fails, a later one raises while being cancelled)",
    "'only reported or logged' = the simulation is still running and serving events afterwards",
]
REQUIRED = {'cases_with_error_compared': 100, 'first_error_kept': 15, 'harmless_survived': 50,
            'cancel_is_normal_stop': 10, 'run_mode_cases': 30, 'same_instant_cases': 30,
            'abort_before_start': 2, 'not_ready_after_end': 100}
SHARDS = {'quick': 8, 'thorough': 16}
TIMEOUT = {'quick': 300, 'thorough': 3000}

FATAL_R = ['H', 'C', 'M', 'A', 'E', 'X']            # usable in both modes
MODE_U_ONLY = ['S', 'R', 'K', 'T']
HARMLESS = ['unknown', 'unknown_fsm', 'noparam', 'ainit_fail', 'restore_fail', 'restore_fail_td', 'storage_read_fail',
            'schema_reject']


class SchemaInvalid(Exception):
    """A validation library's own error class (derived directly from Exception)."""



class SrcError(Exception):
    pass


def run_case(case, ctx):
    import edzed
    hist = core.History()
    mode = case['mode']
    actions = case['actions']       # list of [kind, time]
    fired = []                      # (kind, index, exception object or tag) in firing order
    excs = {}
    res = {}

    def build():
        objs = {}
        # H: probe whose handler raises on 'boom'
        for i, (kind, t) in enumerate(actions):
            if kind == 'H':
                class HP(edzed.SBlock):
                    def init_regular(self):
                        self.set_output(0)

                    def _event(self, etype, data, i=i):
                        if etype == 'boom':
                            exc = SrcError(f"H{i}")
                            excs[i] = exc
                            fired.append(('H', i))
                            raise exc
                        return 'pong'
                objs[i] = HP(f"h{i}")
            elif kind == 'C':
                inp = edzed.Input(f"ci{i}", initdef=0)

                def func(x, i=i):
                    if x:
                        exc = SrcError(f"C{i}")
                        excs[i] = exc
                        fired.append(('C', i))
                        raise exc
                    return 0
                edzed.FuncBlock(f"c{i}", func=func).connect(inp)
                objs[i] = inp
            elif kind == 'M':
                cls = probes.probe_class({'maintask'})

                class MP(cls):
                    async def _maintask(self, i=i, t=t):
                        await asyncio.sleep(t)
                        exc = SrcError(f"M{i}")
                        excs[i] = exc
                        fired.append(('M', i))
                        raise exc
                objs[i] = MP(f"m{i}", x_hist=hist, x_script={'init_regular': 'set'}, x_emit={},
                             stop_timeout=1)
            elif kind == 'FK':
                # an FSM whose entry action fails with a KeyError (a dictionary lookup keyed by
                # event data) while an event is being handled
                class KFsm(edzed.FSM):
                    STATES = ['a', 'b']
                    EVENTS = [['go', 'a', 'b'], ['go', 'b', 'a']]

                    def enter_b(self, i=i):
                        exc = KeyError(f"FK{i}")
                        excs[i] = exc
                        fired.append(('H', i))
                        raise exc
                objs[i] = KFsm(f"k{i}")
            elif kind == 'MC':
                # a worker task that its own block cancels (a 'restart' event) and that fails
                # with an ordinary exception while it handles the cancellation
                class Worker(edzed.AddonAsync, edzed.SBlock):
                    def init_regular(self):
                        self.set_output(0)

                    def start(self):
                        super().start()
                        self.x_task = self._create_monitored_task(self._worker())

                    async def _worker(self, i=i):
                        try:
                            await asyncio.sleep(10 ** 6)
                        except asyncio.CancelledError:
                            if self.x_restart:
                                exc = SrcError(f"MC{i}")
                                excs[i] = exc
                                fired.append(('M', i))
                                raise exc
                            raise

                    def _event_restart(self, **_data):
                        self.x_restart = True
                        self.x_task.cancel()

                    async def stop_async(self):
                        self.x_task.cancel()
                        try:
                            await self.x_task
                        except BaseException:   # pylint: disable=broad-except
                            pass
                objs[i] = Worker(f"w{i}", x_restart=False, stop_timeout=1)
            elif kind == 'E':
                objs[i] = edzed.Input(f"e{i}", initdef=0, on_output=edzed.Event(
                    '_ctrl', 'abort', efilter=edzed.not_from_undef))
            elif kind == 'EC':
                # the 'abort' control event is produced inside the simulation task:
                # a combinational block's on_output event during an evaluation pass
                inp = edzed.Input(f"eci{i}", initdef=0)
                edzed.Not(f"e{i}", on_output=edzed.Event(
                    '_ctrl', 'abort', efilter=edzed.not_from_undef)).connect(inp)
                objs[i] = inp
            elif kind == 'HN':
                # the outer block forwards the event; the inner one refuses it with a mere
                # parameter error (a 'put' without value) - for the OUTER block that is an
                # exception inside its event handler: fatal
                cnt = edzed.Counter(f"hncnt{i}")
                objs[i] = edzed.Repeat(f"e{i}", dest=cnt, etype='put', interval=1000, count=0)
            elif kind == 'EI':
                def failing(value, i=i):
                    raise SrcError(f"EI{i}")
                edzed.OutputFunc(f"e{i}", func=failing, on_error=edzed.Event.abort())
                objs[i] = edzed.Input(f"eii{i}", initdef=0, on_output=edzed.Event(f"e{i}"))
            elif kind == 'HC':
                # a combinational block's function sends an event to a failing handler and
                # swallows the exception: the error is delivered by abort() from inside the
                # simulation task and must still terminate the simulation
                class HP2(edzed.SBlock):
                    def init_regular(self):
                        self.set_output(0)

                    def _event(self, etype, data, i=i):
                        exc = SrcError(f"H{i}")
                        excs[i] = exc
                        fired.append(('H', i))
                        raise exc
                hp = HP2(f"hc{i}")
                inp = edzed.Input(f"hci{i}", initdef=0)

                def func(x, hp=hp):
                    if x:
                        try:
                            hp.event('boom')
                        except Exception:   # pylint: disable=broad-except
                            pass
                    return 0
                edzed.FuncBlock(f"hcf{i}", func=func).connect(inp)
                objs[i] = inp
            elif kind == 'Z':
                objs[i] = edzed.Input(f"z{i}", initdef=0, on_output=edzed.Event(
                    '_ctrl', 'shutdown', efilter=edzed.not_from_undef))
            elif kind == 'ZC':
                # one put makes a CBlock request a shutdown and another CBlock fail, both
                # inside the same evaluation pass of the simulator
                inp = edzed.Input(f"zc{i}", initdef=0)
                edzed.Not(f"zn{i}", on_output=edzed.Event(
                    '_ctrl', 'shutdown', efilter=edzed.not_from_undef)).connect(inp)

                def func(x, i=i):
                    if x:
                        exc = SrcError(f"C{i}")
                        excs[i] = exc
                        fired.append(('C', i))
                        raise exc
                    return 0
                edzed.FuncBlock(f"zf{i}", func=func).connect(inp)
                objs[i] = inp
            elif kind == 'IE':
                # the synchronous initialisation is triggered early by an event arriving during
                # the asynchronous initialisation phase; it fails, the sender of the event
                # catches the exception; a second attempt would succeed
                class IEP(edzed.SBlock):
                    x_attempts = 0

                    def init_regular(self, i=i):
                        type(self).x_attempts += 1
                        res['ie_attempts'] = type(self).x_attempts
                        if type(self).x_attempts == 1:
                            hist.log('ie_init_raises', i)
                            raise SrcError(f"I{i}")
                        self.set_output(0)

                    def _event(self, etype, data):
                        return 'pong'
                objs[i] = IEP(f"ie{i}")
            elif kind == 'I':
                class IP(edzed.SBlock):
                    def init_regular(self, i=i):
                        exc = SrcError(f"I{i}")
                        excs[i] = exc
                        fired.append(('I', i))
                        raise exc
                objs[i] = IP(f"i{i}")
        objs['pinger'] = probes.make_probe('pinger', set(), hist, {'init_regular': 'set'})
        # a block with asynchronous clean-up: the simulation task has to await during the stop
        probes.make_probe('acl', {'astop'}, hist, {'init_regular': 'set', 'stop_async': ('ok', 0.5)},
                          stop_timeout=3)
        if case.get('harmless') == 'noparam':
            objs['cnt'] = edzed.Counter('cnt')
        if case.get('harmless') == 'unknown_fsm':
            # FSM-based blocks report an unknown event type from deeper inside
            objs['htmr'] = edzed.Timer('htmr', t_on=100)
            objs['hiexp'] = edzed.InputExp('hiexp', duration=100, initdef=1)
        # harmless fault carriers
        if case.get('harmless') == 'ainit_fail':
            probes.make_probe('af', {'ainit', 'initdef'}, hist,
                              {'init_async': ('raise', 0.1)}, init_timeout=2, initdef=1)
        if case.get('harmless') == 'restore_fail':
            probes.make_probe('rf', {'persist', 'initdef'}, hist, {'restore': 'raise'},
                              persistent=True, initdef=1)
        if case.get('harmless') == 'restore_fail_td':
            # library blocks with a saved state they cannot parse (damaged, other version)
            edzed.TimeDate('rtd', times='10:00-11:00', persistent=True)
            edzed.TimeSpan('rts', span='2020-01-01 0:0 - 2020-01-02 0:0', persistent=True)
            edzed.Counter('rcn', persistent=True, initdef=2)
        if case.get('harmless') == 'schema_reject':
            # an Input whose schema refuses values with an exception class of its own; a stale
            # saved value is refused at the restore, a wrong external value at t=0.5
            def schema(value):
                if not isinstance(value, int):
                    raise SchemaInvalid(f"not an integer: {value!r}")
                return value
            objs['sch'] = edzed.Input('sch', initdef=1, schema=schema, persistent=True)
        if case.get('harmless') == 'storage_read_fail':
            # the storage back-end fails to read the saved state of this block
            probes.make_probe('rf', {'persist', 'initdef'}, hist, {}, persistent=True, initdef=1)
        if case.get('slow_init'):
            # persistent blocks that get their state only in the second initialisation step
            # (after the asynchronous one): not initialised yet when the stop request arrives
            edzed.Timer('lp_timer', persistent=True)
            edzed.Input('lp_input', persistent=True, initdef=3)
            if case['slow_init'] == 'swallow':
                # its clean-up fails when it is cancelled: the CancelledError forwarded by the
                # simulator ends up as an ordinary (only logged) error of the init task
                class Swallow(edzed.AddonAsync, edzed.SBlock):
                    async def init_async(self):
                        try:
                            await asyncio.sleep(6.0)
                        except asyncio.CancelledError:
                            raise ConnectionError('vf: closing the connection failed') from None
                        self.set_output(1)

                    def init_regular(self):
                        if not self.is_initialized():
                            self.set_output(0)
                Swallow('slowinit', init_timeout=8)
            else:
                probes.make_probe('slowinit', {'ainit', 'initdef'}, hist,
                                  {'init_async': ('ok', 6.0)}, init_timeout=8, initdef=1)
        if case.get('harmless') == 'stop_fail':
            probes.make_probe('sf', set(), hist, {'init_regular': 'set', 'stop': 'raise'})
        return objs

    def fire(i, kind, objs, circuit):
        """Synchronous part of firing source i."""
        try:
            if kind == 'H':
                edzed.ExtEvent(objs[i], 'boom').send()
            elif kind == 'MC':
                edzed.ExtEvent(objs[i], 'restart').send()
            elif kind == 'FK':
                edzed.ExtEvent(objs[i], 'go').send()
            elif kind in ('C', 'Z', 'ZC'):
                edzed.ExtEvent(objs[i]).send(1)
            elif kind in ('E', 'EC'):
                edzed.ExtEvent(objs[i]).send(1)
            elif kind == 'HC':
                edzed.ExtEvent(objs[i]).send(1)
            elif kind == 'HN':
                edzed.ExtEvent(objs[i], 'put').send()      # no 'value'
            elif kind == 'IE':
                res['ie_sent'] = True
                edzed.ExtEvent(objs[i], 'ping').send()
            elif kind == 'A':
                exc = SrcError(f"A{i}")
                excs[i] = exc
                fired.append(('A', i))
                circuit.abort(exc)
        except edzed.EdzedInvalidState:
            hist.log('refused', kind, i)
            if fired and fired[-1] == (kind, i):
                fired.pop()
        except Exception as err:
            hist.log('caught', kind, i, repr(err))

    async def main(loop):
        edzed.reset_circuit()
        objs = build()
        circuit = edzed.get_circuit()
        # log every cancellation request that reaches the simulator (record-and-delegate):
        # shutdown(), run() and the SIGTERM handler all deliver it through Circuit.abort()
        orig_abort = circuit.abort

        def abort(exc):
            if isinstance(exc, asyncio.CancelledError):
                fired.append(('cancel', len(fired)))
            else:
                # errors reported through events / failing handlers of library blocks: logged
                # at the moment they reach the simulator, not when the harness triggered them
                # (a combinational block in between acts only when the simulator runs it)
                for i, (kind, _t) in enumerate(actions):
                    if kind == 'HN' and f"'e{i}'" in str(exc) and ('E', i) not in fired:
                        fired.append(('E', i))
                        break
            return orig_abort(exc)
        circuit.abort = abort
        if case.get('harmless') == 'restore_fail':
            circuit.set_persistent_data({"<Probe_initdef_persist 'rf'>": 5, 'edzed-stop-time': 0.0})
        elif case.get('harmless') == 'restore_fail_td':
            circuit.set_persistent_data({
                "<TimeDate 'rtd'>": {'times': 'half past six', 'dates': None, 'weekdays': [33]},
                "<TimeSpan 'rts'>": [[[2020, 1, 1], [2020]]],
                "<Counter 'rcn'>": 'seven', 'edzed-stop-time': 0.0})
        elif case.get('harmless') == 'storage_read_fail':
            import collections.abc

            class FailingStorage(collections.abc.MutableMapping):
                # (a real mapping class like shelve.Shelf: get(), pop(), 'in' ... are built on
                # the primitive operations)
                def __init__(self, init):
                    self._d = dict(init)

                def __getitem__(self, key):
                    if 'rf' in str(key):
                        hist.log('storage_read_error', key)
                        raise OSError(f"vf: record {key!r}: checksum error")
                    return self._d[key]

                def __setitem__(self, key, value):
                    self._d[key] = value

                def __delitem__(self, key):
                    del self._d[key]

                def __iter__(self):
                    return iter(self._d)

                def __len__(self):
                    return len(self._d)
            circuit.set_persistent_data(FailingStorage(
                {"<Probe_initdef_persist 'rf'>": 5, 'edzed-stop-time': 0.0}))
        elif case.get('slow_init'):
            circuit.set_persistent_data({'edzed-stop-time': 0.0})
        t0 = loop.time()
        if any(k == 'B' for k, _ in actions):
            exc = SrcError("B")
            excs['B'] = exc
            fired.append(('B', 'B'))
            circuit.abort(exc)
            ctx.count('abort_before_start')
        if any(k == 'BC' for k, _ in actions):
            # a stop request (cancellation) before the start
            circuit.abort(asyncio.CancelledError('vf: stop requested before the start'))
            ctx.count('abort_before_start')
        shutdown_results = []

        def schedule(simtask_getter, runtask_getter):
            for i, (kind, t) in enumerate(actions):
                when = t0 + t
                if kind in ('H', 'C', 'E', 'A', 'Z', 'ZC', 'EC', 'HC', 'HN', 'MC', 'FK', 'IE'):
                    loop.call_at(when, fire, i, kind, objs, circuit)
                elif kind == 'X':
                    async def do_shutdown(i=i):
                        fired.append(('X', i))
                        try:
                            await circuit.shutdown()
                            shutdown_results.append((i, None))
                        except BaseException as err:
                            shutdown_results.append((i, err))
                    loop.call_at(when, lambda c=do_shutdown: asyncio.ensure_future(c()))
                elif kind == 'K':
                    def cancel_run(i=i):
                        fired.append(('K', i))
                        if mode == 'N':
                            # the task running run() IS the simulation task: this is the
                            # delivery of the cancellation
                            fired.append(('cancel', len(fired)))
                        runtask_getter().cancel()
                    loop.call_at(when, cancel_run)
                elif kind == 'T':
                    def sigterm(i=i):
                        fired.append(('T', i))
                        os.kill(os.getpid(), signal.SIGTERM)
                    loop.call_at(when, sigterm)
            # a look at the circuit 0.25 s after the first termination cause: whatever it was, it
            # has been delivered by then and the clean-up (0.5 s stop_async) is still running
            if actions:
                def probe_ready():
                    if not fired:
                        return      # nothing has happened (e.g. the cause was refused)
                    try:
                        edzed.ExtEvent(objs['pinger'], 'ping').send()
                        sent = 'delivered'
                    except edzed.EdzedInvalidState:
                        sent = 'refused'
                    except Exception as err:    # pylint: disable=broad-except
                        sent = repr(err)
                    res['during_cleanup'] = (circuit.is_ready(), sent, list(fired))
                loop.call_at(t0 + min(t for _k, t in actions) + 0.25, probe_ready)
            # harmless faults at t=0.5
            h = case.get('harmless')
            if h in ('unknown', 'unknown_fsm', 'noparam', 'schema_reject'):
                def harmless():
                    try:
                        if h == 'unknown':
                            edzed.ExtEvent(objs['pinger'], 'bogus').send()
                        elif h == 'unknown_fsm':
                            try:
                                edzed.ExtEvent(objs['htmr'], 'bogus').send()
                            except edzed.EdzedUnknownEvent:
                                pass
                            edzed.ExtEvent(objs['hiexp'], 'bogus').send(5)
                        elif h == 'schema_reject':
                            res['schema_reject_ret'] = edzed.ExtEvent(objs['sch']).send('text')
                        else:
                            edzed.ExtEvent(objs['cnt'], 'put').send()      # missing 'value'
                    except Exception as err:
                        hist.log('harmless_exc', repr(err))
                loop.call_at(t0 + 0.5, harmless)

        def check_serving(tag):
            try:
                r = edzed.ExtEvent(objs['pinger'], 'ping').send()
                res[tag] = (r == 'pong')
            except Exception as err:
                res[tag] = repr(err)
        loop.call_at(t0 + 0.7, check_serving, 'serving_at_0.7')

        if mode == 'R':
            simtask = asyncio.create_task(circuit.run_forever())
            schedule(lambda: simtask, lambda: None)
            await asyncio.sleep(0)
            res['ready_after_start'] = circuit.is_ready()
            await asyncio.sleep(12)
            res['done'] = simtask.done()
            res['ready_at_end'] = circuit.is_ready()
            if not simtask.done():
                # nothing fatal happened: normal stop
                try:
                    await circuit.shutdown()
                    res['final_shutdown'] = None
                except BaseException as err:
                    res['final_shutdown'] = err
                res['alive_until_end'] = True
            else:
                try:
                    await circuit.shutdown()
                    res['final_shutdown'] = None
                except BaseException as err:
                    res['final_shutdown'] = err
            try:
                await simtask
                res['simtask_exc'] = None
            except BaseException as err:
                res['simtask_exc'] = err
            # later abort() never replaces the error
            late = SrcError('late abort')
            before = circuit.error
            circuit.abort(late)
            res['late_abort_replaced'] = circuit.error is not before
            res['error'] = circuit.error
            res['ready_final'] = circuit.is_ready()
            res['shutdown_results'] = shutdown_results
        else:
            supporting = []
            for i, (kind, t) in enumerate(actions):
                if kind == 'S':
                    async def failing(i=i, t=t):
                        await asyncio.sleep(t)
                        exc = SrcError(f"S{i}")
                        excs[i] = exc
                        fired.append(('S', i))
                        raise exc
                    supporting.append(failing())
                elif kind == 'SC':
                    async def cancel_raiser(i=i):
                        try:
                            await asyncio.sleep(100)
                        except asyncio.CancelledError:
                            exc = SrcError(f"SC{i}")
                            excs[i] = exc
                            fired.append(('SC', i))
                            raise exc
                    supporting.append(cancel_raiser())
                elif kind == 'R':
                    async def returning(i=i, t=t):
                        await asyncio.sleep(t)
                        fired.append(('R', i))
                    supporting.append(returning())

            async def idle():
                await asyncio.sleep(12)
                fired.append(('R', 'idle'))
            supporting.append(idle())
            if mode == 'N':
                # edzed.run() without supporting coroutines: run_forever() runs in the very task
                # that is being cancelled; a final guard ends a simulation that ignores it
                for coro in supporting:
                    coro.close()
                supporting = []
                loop.call_at(t0 + 12, lambda: (fired.append(('guard', 'N')), circuit.abort(
                    asyncio.CancelledError('vf: final guard'))))
            runtask = asyncio.create_task(edzed.run(*supporting))
            schedule(lambda: None, lambda: runtask)
            try:
                await runtask
                res['run_exc'] = None
            except BaseException as err:
                res['run_exc'] = err
            res['error'] = circuit.error
            res['ready_final'] = circuit.is_ready()
            res['shutdown_results'] = shutdown_results
            res['end_time'] = loop.time() - t0

    def setup(loop):
        lat = case.get('latency')
        if lat:
            lrng = ctx.rng('lat', core.case_hash(case))
            loop.latency = lambda: lrng.random() * lat
    # 'abort' control events are logged when they ARRIVE at the simulator control block (record
    # and delegate at its event() entry point), whatever the block then does with them
    from edzed.blocklib import sblocks1
    inherited_event = sblocks1.ControlBlock.event

    def ctrl_event(self, etype, /, **data):
        if etype == 'abort':
            for i, (kind, _t) in enumerate(actions):
                if kind in ('E', 'EC', 'EI') and data.get('source') == f"e{i}" \
                        and ('E', i) not in fired:
                    fired.append(('E', i))
                    break
        return inherited_event(self, etype, **data)
    sblocks1.ControlBlock.event = ctrl_event

    def fallback(_signo, _frame):
        # SIGTERM sent while edzed's own handler is not installed (run() restores the previous
        # handler before it awaits the end of the clean-up): must not kill the worker
        caller = sys._getframe(1).f_code
        if not (caller.co_name == '_handler' and '/edzed/' in caller.co_filename):
            hist.log('sigterm_unhandled')
            res['sigterm_unhandled'] = True
    old_handler = signal.signal(signal.SIGTERM, fallback)
    try:
        loop, _, exc = vloop.run(main, setup=setup)
    finally:
        signal.signal(signal.SIGTERM, old_handler)
        del sblocks1.ControlBlock.event     # the inherited SBlock.event again
    edzed.reset_circuit()
    if exc is not None and not isinstance(exc, vloop.Deadlock):
        raise exc
    return res, fired, excs, hist


def matches(err, exc):
    """reported error 'err' stems from source exception 'exc'"""
    seen = 0
    while err is not None and seen < 5:
        if err is exc:
            return True
        err = err.__cause__
        seen += 1
    return False


def judge(case, res, fired, excs, hist, ctx):
    import edzed
    mode = case['mode']
    where = f"mode={mode} actions={case['actions']} harmless={case.get('harmless')} fired={fired}"
    if any(k == 'IE' for k, _ in case['actions']):
        # a failed synchronous initialisation (here: run early, on behalf of an event whose
        # sender caught the exception) terminates the simulation - with whatever error
        if res.get('ie_attempts', 0) < 1 or not res.get('ie_sent'):
            raise core.Inconclusive(f"C09: {where}: the early initialisation was not triggered")
        ctx.count('early_sync_init_failures')
        sim_exc = res.get('simtask_exc')
        if res.get('alive_until_end') or not isinstance(sim_exc, Exception):
            raise core.Violation(
                'sync-init-error-did-not-stop-simulation',
                f"{where}: init_regular() raised when an event made it run early (attempts: "
                f"{res.get('ie_attempts')}); the simulation went on, ended with {sim_exc!r}")
        return
    sim_fatal = [f for f in fired if f[0] in ('H', 'C', 'M', 'A', 'E', 'I', 'B')]
    first = fired[0] if fired else None
    error = res.get('error')
    ctx.count('not_ready_after_end')
    if res.get('ready_final'):
        raise core.Violation('ready-after-the-end', f"{where}: is_ready() is true after the end")
    dc = res.get('during_cleanup')
    if dc is not None and not (case.get('slow_init') and mode != 'R'):
        ctx.count('not_ready_during_cleanup')
        if dc[0] or dc[1] != 'refused':
            raise core.Violation(
                'ready-while-stopping',
                f"{where}: 0.25 s after the first termination cause (fired so far: {dc[2]}) "
                f"is_ready() = {dc[0]}, an external event was {dc[1]}")
    # harmless faults
    if case.get('harmless') and (not fired or min((t for _, t in case['actions']), default=99) >= 1):
        ok = res.get('serving_at_0.7')
        if ok is not True and not any(k in ('I', 'B') for k, _ in case['actions']):
            raise core.Violation(
                f"harmless-fault-stopped-simulation-{case['harmless']}",
                f"{where}: after the harmless fault the circuit does not serve events: {ok!r}")
        if ok is True:
            ctx.count('harmless_survived')
    if len({t for _, t in case['actions']}) < len(case['actions']):
        ctx.count('same_instant_cases')
    # expected reported error: the first delivery to the simulator - a fatal source or a
    # cancellation request ('cancel' entries are logged when Circuit.abort(CancelledError) is
    # called by shutdown(), by run() or by the SIGTERM handler)
    first_fatal = None
    for f in fired:
        if f[0] in ('H', 'C', 'M', 'A', 'E', 'I', 'B'):
            first_fatal = f
            break
        if f[0] == 'cancel':
            break       # the simulation is being cancelled: later sources cannot replace it
    if mode == 'R':
        sim_exc = res.get('simtask_exc')
        if first is None:
            # nothing fired: normal stop at the end
            if not isinstance(sim_exc, asyncio.CancelledError) or res.get('final_shutdown') is not None:
                raise core.Violation('normal-stop-misreported', f"{where}: {sim_exc!r}")
            return
        if first_fatal is not None:
            kind, i = first_fatal
            ctx.count('cases_with_error_compared')
            if kind == 'E':
                ok = isinstance(error, edzed.EdzedCircuitError) and f"e{i}" in str(error)
            else:
                ok = matches(error, excs[i])
            if not ok:
                raise core.Violation(
                    f"first-error-not-reported-{kind}",
                    f"{where}: Circuit.error is {error!r} (cause {getattr(error, '__cause__', None)!r})"
                    f", the first delivered error was {first_fatal}")
            if sim_exc is not error:
                raise core.Violation('run_forever-raised-other-error',
                                     f"{where}: run_forever raised {sim_exc!r}, error {error!r}")
            if res.get('final_shutdown') is not error:
                raise core.Violation('shutdown-raised-other-error',
                                     f"{where}: shutdown() gave {res.get('final_shutdown')!r}")
            for i2, r in res['shutdown_results']:
                if r is not error:
                    raise core.Violation('shutdown-raised-other-error',
                                         f"{where}: earlier shutdown() gave {r!r}")
            if not res.get('done'):
                raise core.Violation('fatal-error-did-not-stop-simulation',
                                     f"{where}: simulation task still running 12 s later")
            if len(sim_fatal) > 1:
                ctx.count('first_error_kept')
        else:
            # first event is a shutdown: cancellation counts as a normal stop
            ctx.count('cancel_is_normal_stop')
            if not isinstance(error, asyncio.CancelledError):
                raise core.Violation('cancel-replaced-by-later-error',
                                     f"{where}: error {error!r} after a shutdown came first")
            if res.get('final_shutdown') is not None or any(r is not None for _, r in res['shutdown_results']):
                raise core.Violation('shutdown-raised-after-cancel',
                                     f"{where}: shutdown() raised {res.get('final_shutdown')!r} "
                                     f"{res['shutdown_results']}")
            if not isinstance(sim_exc, asyncio.CancelledError):
                raise core.Violation('run_forever-raised-other-error', f"{where}: {sim_exc!r}")
        if res.get('late_abort_replaced'):
            raise core.Violation('late-abort-replaced-error', f"{where}: abort() after the end "
                                 "replaced Circuit.error")
    else:
        ctx.count('run_mode_cases')
        run_exc = res.get('run_exc')
        if res.get('sigterm_unhandled'):
            # (the harness ends with run(), so every SIGTERM of a case is sent while run() is
            # active - incl. its wait for the end of the clean-up)
            raise core.Violation(
                'sigterm-not-caught-while-run-is-active',
                f"{where}: a SIGTERM found no edzed handler installed although run() had not "
                "returned yet (default action: the process dies at once)")
        if fired and 'end_time' in res:
            t_first = min(t for _k, t in case['actions'])
            if res['end_time'] > t_first + 4.0:
                # (clean-up: the slowest stop_async takes 0.5 s, stop_timeout 3 s)
                raise core.Violation(
                    'stop-request-ignored',
                    f"{where}: run() returned {res['end_time']:.2f} s after its start, the first "
                    f"termination cause fired at {t_first} s")
            ctx.count('prompt_termination_checked')
        if first_fatal is not None:
            kind, i = first_fatal
            ctx.count('cases_with_error_compared')
            if kind == 'E':
                ok = isinstance(run_exc, edzed.EdzedCircuitError) and f"e{i}" in str(run_exc)
            else:
                ok = matches(run_exc, excs[i])
            if not ok:
                raise core.Violation(
                    f"run-did-not-raise-simulator-error-{kind}",
                    f"{where}: run() raised {run_exc!r}, first simulator error was {first_fatal}")
        else:
            s = [f for f in fired if f[0] == 'S']
            if s:
                ctx.count('cases_with_error_compared')
                if not matches(run_exc, excs[s[0][1]]):
                    raise core.Violation('run-did-not-raise-supporting-error',
                                         f"{where}: run() raised {run_exc!r}")
            elif not s:
                ctx.count('cancel_is_normal_stop')
                if run_exc is not None:
                    raise core.Violation('run-raised-after-normal-stop',
                                         f"{where}: run() raised {run_exc!r}")
            if not isinstance(error, asyncio.CancelledError):
                # a simulator error delivered after the cancellation must not replace it
                raise core.Violation('cancel-replaced-by-later-error',
                                     f"{where}: Circuit.error {error!r}")


def gen(ctx):
    rng = ctx.rng('gen')
    cases = []
    # mode R
    kindsR = FATAL_R
    for k in kindsR:
        cases.append({'mode': 'R', 'actions': [[k, 1]]})
    cases.append({'mode': 'R', 'actions': [['I', 0]]})
    for t in (0.5, 1, 3):
        cases.append({'mode': 'R', 'actions': [['IE', t]], 'slow_init': True})
    cases.append({'mode': 'R', 'actions': [['IE', 1]], 'slow_init': 'swallow'})
    cases.append({'mode': 'R', 'actions': [['B', 0]]})
    for mode in 'RUN':
        cases.append({'mode': mode, 'actions': [['BC', 0]]})
        cases.append({'mode': mode, 'actions': [['BC', 0], ['A', 1]]})
        if mode != 'R':
            cases.append({'mode': mode, 'actions': [['B', 0]]})
            cases.append({'mode': mode, 'actions': [['B', 0], ['A', 1]]})
    cases.append({'mode': 'R', 'actions': []})
    for a, b in itertools.permutations(kindsR, 2):
        cases.append({'mode': 'R', 'actions': [[a, 1], [b, 2]]})
        cases.append({'mode': 'R', 'actions': [[a, 1], [b, 1]]})
    for rep in range(6):
        cases.append({'mode': 'R', 'actions': [['ZC', 1]], 'rep': rep})
        cases.append({'mode': 'R', 'actions': [['ZC', 1], ['A', 1]], 'rep': rep})
        cases.append({'mode': 'U', 'actions': [['ZC', 1]], 'rep': rep})
    for a in kindsR + ['Z']:
        cases.append({'mode': 'R', 'actions': [['Z', 1], [a, 1]]})
        cases.append({'mode': 'R', 'actions': [[a, 1], ['Z', 2]]})
    # a stop request arriving while the asynchronous initialisation is in progress
    for k in ('K', 'T', 'R', 'S'):
        cases.append({'mode': 'U', 'actions': [[k, 1]], 'slow_init': True})
    cases.append({'mode': 'N', 'actions': [['K', 1]], 'slow_init': True})
    cases.append({'mode': 'N', 'actions': [['K', 1]]})
    cases.append({'mode': 'N', 'actions': [['T', 1]], 'slow_init': True})
    cases.append({'mode': 'N', 'actions': [['K', 7]], 'slow_init': True})
    # the run() task (= the simulation task) is cancelled in the middle of the clean-up
    for a in ('A', 'H', 'C', 'K'):
        cases.append({'mode': 'N', 'actions': [[a, 1], ['K', 1.25]]})
        cases.append({'mode': 'U', 'actions': [[a, 1], ['K', 1.25]]})
        # ... and cancelled once more while run() awaits the end of that clean-up
        cases.append({'mode': 'U', 'actions': [[a, 1], ['K', 1.125], ['K', 1.25]]})
        cases.append({'mode': 'U', 'actions': [[a, 1], ['K', 1], ['K', 1.25]]})
    for k in ('X', 'A', 'Z'):
        cases.append({'mode': 'R', 'actions': [[k, 1]], 'slow_init': True})
        cases.append({'mode': 'R', 'actions': [[k, 1]], 'slow_init': 'swallow'})
        cases.append({'mode': 'U', 'actions': [[k, 1]], 'slow_init': 'swallow'})
    # abort requested from inside the simulation task during the synchronous initialisation
    cases.append({'mode': 'R', 'actions': [['EI', 0]]})
    cases.append({'mode': 'U', 'actions': [['EI', 0]]})
    for a in kindsR:
        cases.append({'mode': 'R', 'actions': [['EI', 0], [a, 1]]})
    # two failing supporting tasks: coroutine #0 fails, coroutine #1 raises while it is being
    # cancelled - #0 is the first one both in time and in argument order
    cases.append({'mode': 'U', 'actions': [['S', 1], ['SC', 0]]})
    cases.append({'mode': 'U', 'actions': [['S', 1], ['SC', 0], ['SC', 0]]})
    cases.append({'mode': 'U', 'actions': [['S', 1], ['SC', 0], ['R', 2]]})
    for inner in ('EC', 'HC', 'HN', 'MC', 'FK'):
        cases.append({'mode': 'R', 'actions': [[inner, 1]]})
        cases.append({'mode': 'U', 'actions': [[inner, 1]]})
        for a in kindsR:
            cases.append({'mode': 'R', 'actions': [[inner, 1], [a, 2]]})
            cases.append({'mode': 'R', 'actions': [[a, 1], [inner, 2]]})
    for a in kindsR:
        cases.append({'mode': 'R', 'actions': [[a, 1], [a, 1]]})
        cases.append({'mode': 'R', 'actions': [['B', 0], [a, 1]]})
        cases.append({'mode': 'R', 'actions': [['I', 0], [a, 1]]})
    # mode U
    kindsU = ['H', 'C', 'M', 'A', 'E', 'S', 'R', 'K', 'T']
    for k in kindsU:
        cases.append({'mode': 'U', 'actions': [[k, 1]]})
    for a, b in itertools.permutations(kindsU, 2):
        if {a, b} <= {'S'}:
            continue
        cases.append({'mode': 'U', 'actions': [[a, 1], [b, 2]]})
        cases.append({'mode': 'U', 'actions': [[a, 1], [b, 1]]})
    for a, b, c in itertools.permutations(kindsR, 3):
        for times in ((1, 1, 1),):
            cases.append({'mode': 'R', 'actions': [[a, times[0]], [b, times[1]], [c, times[2]]]})
    if ctx.tier != 'quick':
        for a, b, c in itertools.permutations(kindsR, 3):
            for times in ((1, 2, 3), (1, 1, 2), (1, 2, 2)):
                cases.append({'mode': 'R', 'actions': [[a, times[0]], [b, times[1]], [c, times[2]]]})
        for a, b, c in itertools.permutations(kindsU, 3):
            if [a, b, c].count('S') > 1:
                continue
            for times in ((1, 2, 3), (1, 1, 1)):
                cases.append({'mode': 'U', 'actions': [[a, times[0]], [b, times[1]], [c, times[2]]]})
    for i, case in enumerate(cases):
        case['enum'] = True
        if i % 3 == 0:
            case['harmless'] = HARMLESS[(i // 3) % len(HARMLESS)]
        elif i % 7 == 0:
            case['harmless'] = 'stop_fail'
        if i % ctx.nshards == ctx.shard:
            yield case
    # random schedules: 1..4 sources of any kind, times from a small grid (ties are likely),
    # wake-up latency injected into the virtual loop, optional slow initialisation
    rng = ctx.rng('random')
    nrand = 500 if ctx.tier == 'quick' else 400000
    inner = ['Z', 'ZC', 'EC', 'HC', 'HN', 'MC', 'FK']
    for i in range(nrand):
        mode = rng.choice(['R', 'R', 'U', 'U', 'N'])
        pool = FATAL_R + inner + (['S', 'R', 'K', 'T'] if mode == 'U' else
                                  ['K', 'T'] if mode == 'N' else [])
        actions = []
        for _ in range(rng.randrange(1, 5)):
            k = rng.choice(pool)
            if k == 'S' and any(a[0] == 'S' for a in actions):
                k = 'R'
            actions.append([k, rng.choice([1, 1, 1.5, 2, 2, 2.5])])
        if mode == 'N':
            # (a cancellation of the simulation task itself and another source in the very
            # same instant: which one the simulator sees first is not observable here)
            for a in actions:
                if a[0] == 'K':
                    a[1] = rng.choice([1.25, 1.75, 2.25])
        actions.sort(key=lambda a: a[1])
        if rng.random() < 0.12:
            actions.insert(0, [rng.choice(['B', 'BC', 'EI'] + (['I'] if mode == 'R' else [])), 0])
        case = {'mode': mode, 'actions': actions}
        r = rng.random()
        if r < 0.3:
            case['harmless'] = rng.choice(HARMLESS + ['stop_fail'])
        if rng.random() < 0.2 and not any(
                a[0] in ('I', 'B', 'BC', 'EI', 'C', 'ZC', 'EC', 'HC') for a in actions):
            # (sources acting through a combinational block fire only when the simulation
            # proper begins, i.e. after the initialisation)
            case['slow_init'] = True
        if rng.random() < 0.4:
            case['latency'] = rng.choice([1e-4, 2e-3])
        if i % ctx.nshards == ctx.shard:
            yield case


def run_one(case, ctx):
    res, fired, excs, hist = run_case(case, ctx)
    try:
        judge(case, res, fired, excs, hist, ctx)
    except core.Violation as v:
        ctx.violation(case, v.key, v.msg, history={'fired': fired, 'hist': hist.dump(40)})
        ctx.case_done(case, True)
        return
    ctx.case_done(case, bool(fired), {'case': case, 'fired_in_order': fired,
                                      'reported': repr(res.get('error'))},
                  enumerated=bool(case.get('enum')))


def run_shard(ctx):
    for case in gen(ctx):
        run_one(case, ctx)


def replay(rep, ctx):
    run_one(rep['case'], ctx)
