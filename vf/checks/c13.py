"""
C13 - interval specifications mean the same in every accepted notation.

Differential oracle: the generator owns the integers; every notation is a rendering of them.
"""

import datetime as dt
import random

from .. import core

PROP = 'C13'
TECHNIQUE = ('runtime monitoring: differential oracle - generated integer intervals rendered into notations, parsed by the real classes and compared with integer reference predicates (round trips, membership, malformed inputs)')
LEVEL = 'exploration'
RULE = ("case = one generated interval (list of ranges given as integers) of type time / date / "
        "date-time (or a weekday set, or one malformed specification) rendered in 4 random "
        "notations; each rendering is parsed by the real classes and as_list(), round trips via "
        "as_list()/as_string(), TimeDate.parse/TimeSpan.parse and membership at both endpoints "
        "and their neighbours (+-1us / +-1 day) plus random moments are compared with the "
        "integer reference predicate; distinct = canonical case; non-trivial = at least one "
        "range and one membership probe, or a malformed input observed rejected")
ASSUMPTIONS = [
    "ambiguous renderings the documentation warns about are not generated (hyphen separator "
    "with ISO/hyphenated dates, comma delimiter with a decimal comma)",
    "reference predicates: time ranges [start,stop) wrapping when stop<=start (equal = whole day), "
    "date ranges inclusive wrapping over the year end, date-time ranges [start,stop) never wrap",
    "malformed set limited to unambiguous errors (see MALFORMED in the source)",
    "Python 3.12 datetime.fromisoformat defines the accepted ISO 8601 endpoint formats",
]
REQUIRED = {'renderings_parsed': 500, 'membership_probes': 2000, 'roundtrips': 500,
            'malformed_rejected': 30, 'parse_calls': 100}
SHARDS = {'quick': 8, 'thorough': 16}
TIMEOUT = {'quick': 300, 'thorough': 3000}

MONTHS = ('', 'January', 'February', 'March', 'April', 'May', 'June', 'July', 'August',
          'September', 'October', 'November', 'December')
MDAYS = (0, 31, 29, 31, 30, 31, 30, 31, 31, 30, 31, 30, 31)


# ---------- renderers ----------
def frac_str(rng, us):
    digits = f"{us:06d}".rstrip('0') or '0'
    if rng.random() < 0.3:
        digits = f"{us:06d}"[:max(len(digits), rng.randrange(1, 7))]
    return digits


def r_time_str(rng, t, state):
    h, m, s, us = t
    style = rng.choice(['trad', 'trad', 'iso'])
    pad = lambda v: f"{v:02d}" if rng.random() < 0.6 else str(v)
    if style == 'trad':
        out = f"{pad(h)}:{pad(m)}"
        if s or us or rng.random() < 0.4:
            out += f":{pad(s)}"
            if us or rng.random() < 0.1:
                mark = rng.choice('.,')
                if mark == ',':
                    state['comma'] = True
                out += mark + frac_str(rng, us)
    else:
        ext = rng.random() < 0.5
        sep = ':' if ext else ''
        out = f"{h:02d}"
        if m or s or us or rng.random() < 0.8:
            out += f"{sep}{m:02d}"
            if s or us or rng.random() < 0.4:
                out += f"{sep}{s:02d}"
                if us or rng.random() < 0.1:
                    mark = rng.choice('.,')
                    if mark == ',':
                        state['comma'] = True
                    out += mark + frac_str(rng, us)
        if not ext or rng.random() < 0.5:
            out = 'T' + out
    return out


def r_time_seq(rng, t):
    seq = list(t)
    while len(seq) > 1 and seq[-1] == 0 and rng.random() < 0.7:
        seq.pop()
    return tuple(seq) if rng.random() < 0.3 else seq


def month_name(rng, mon):
    name = MONTHS[mon]
    n = rng.randrange(3, len(name) + 1)
    name = name[:n]
    return rng.choice([name, name.lower(), name.upper(), name.capitalize(),
                       ''.join(rng.choice([c.lower(), c.upper()]) for c in name)])


def r_date_str(rng, d, state):
    mon, day = d
    style = rng.choice(['trad', 'trad', 'iso'])
    if style == 'iso':
        state['hyphen'] = True
        return f"--{mon:02d}{rng.choice(['', '-'])}{day:02d}"
    ds = f"{day:02d}" if rng.random() < 0.4 else str(day)
    ms = month_name(rng, mon)
    dot_d = '.' if rng.random() < 0.3 else ''
    dot_m = '.' if rng.random() < 0.3 else ''
    sp = rng.choice(['', ' ', ' ', '  '])
    if rng.random() < 0.5:
        if dot_d and not sp:
            pass
        return f"{ds}{dot_d}{sp}{ms}{dot_m}"
    return f"{ms}{dot_m}{sp}{ds}{dot_d}"


def r_datetime_str(rng, x, state):
    y, mon, day, h, m, s, us = x
    style = rng.choice(['words', 'ymd', 'ymonthd', 'iso'])
    if style == 'iso':
        state['hyphen'] = True
        ext = rng.random() < 0.6
        if ext:
            out = f"{y:04d}-{mon:02d}-{day:02d}T{h:02d}:{m:02d}"
            if s or us or rng.random() < 0.4:
                out += f":{s:02d}"
        else:
            out = f"{y:04d}{mon:02d}{day:02d}T{h:02d}{m:02d}"
            if s or us or rng.random() < 0.4:
                out += f"{s:02d}"
        if us:
            mark = rng.choice('.,')
            if mark == ',':
                state['comma'] = True
            out += mark + frac_str(rng, us)
        return out
    # time of day, traditional with a colon
    pad = lambda v: f"{v:02d}" if rng.random() < 0.6 else str(v)
    tstr = f"{pad(h)}:{pad(m)}"
    if s or us or rng.random() < 0.4:
        tstr += f":{pad(s)}"
        if us:
            mark = rng.choice('.,')
            if mark == ',':
                state['comma'] = True
            tstr += mark + frac_str(rng, us)
    if style == 'words':
        ds = (f"{day:02d}" if rng.random() < 0.4 else str(day)) + ('.' if rng.random() < 0.3 else '')
        ms = month_name(rng, mon) + ('.' if rng.random() < 0.3 else '')
        parts = [f"{y:04d}", ms, ds, tstr]
        rng.shuffle(parts)
        sp = lambda: rng.choice([' ', ' ', '  '])
        return parts[0] + sp() + parts[1] + sp() + parts[2] + sp() + parts[3]
    state['hyphen'] = True
    if style == 'ymd':
        dpart = f"{y:04d}-{mon:02d}-{day:02d}"
    else:
        dpart = f"{y:04d}-{month_name(rng, mon)}-{day:02d}"
    sp = rng.choice([' ', '  '])
    return dpart + sp + tstr if rng.random() < 0.6 else tstr + sp + dpart


def r_datetime_seq(rng, x):
    seq = list(x)
    while len(seq) > 5 and seq[-1] == 0 and rng.random() < 0.7:
        seq.pop()
    return tuple(seq) if rng.random() < 0.3 else seq


REND = {
    'time': (r_time_str, r_time_seq),
    'date': (r_date_str, lambda rng, d: (tuple(d) if rng.random() < 0.3 else list(d))),
    'datetime': (r_datetime_str, r_datetime_seq),
}


def render_interval(rng, typ, ranges):
    """Return one notation (str or nested sequence) of the interval."""
    rstr, rseq = REND[typ]
    as_string = rng.random() < 0.5
    state = {}
    if as_string:
        rs = []
        for a, b in ranges:
            st = {}
            if typ == 'date' and a == b and rng.random() < 0.5:
                rs.append(rstr(rng, a, st))
            else:
                sa, sb = rstr(rng, a, st), rstr(rng, b, st)
                seps = ['/', ' / ', ' - ']
                if not st.get('hyphen'):
                    seps.append('-')
                rs.append(sa + rng.choice(seps) + sb)
            state.update(st)
        if state.get('comma'):
            delim = ';'
            trailing = True
        else:
            delim = rng.choice([',', ';'])
            trailing = rng.random() < 0.4
        ws = lambda: rng.choice(['', ' ', '  '])
        out = (delim + ws()).join(ws() + r for r in rs)
        if trailing and rs:
            out += ws() + delim + ws()
        return out
    items = []
    for a, b in ranges:
        st = {}
        form = rng.random()
        if form < 0.3:
            # whole range as a string
            if typ == 'date' and a == b and rng.random() < 0.5:
                items.append(rstr(rng, a, st))
            else:
                sa, sb = rstr(rng, a, st), rstr(rng, b, st)
                seps = ['/', ' / ', ' - ']
                if not st.get('hyphen'):
                    seps.append('-')
                items.append(sa + rng.choice(seps) + sb)
        else:
            ea = rstr(rng, a, st) if rng.random() < 0.3 else rseq(rng, a)
            eb = rstr(rng, b, st) if rng.random() < 0.3 else rseq(rng, b)
            items.append((ea, eb) if rng.random() < 0.3 else [ea, eb])
    kind = rng.random()
    if kind < 0.2:
        return tuple(items)
    if kind < 0.3 and len({(tuple(a), tuple(b)) for a, b in ranges}) == len(ranges):
        try:
            def freeze(x):
                return tuple(freeze(i) for i in x) if isinstance(x, (list, tuple)) else x
            return {freeze(i) for i in items}
        except TypeError:
            pass
    return items


# ---------- reference predicates (integers only) ----------
def t_us(t):
    return ((t[0] * 60 + t[1]) * 60 + t[2]) * 1_000_000 + t[3]


def ref_time(ranges, t):
    x = t_us(t)
    for a, b in ranges:
        lo, hi = t_us(a), t_us(b)
        if lo < hi:
            if lo <= x < hi:
                return True
        elif x >= lo or x < hi:
            return True
    return False


def ref_date(ranges, d):
    x = tuple(d)
    for a, b in ranges:
        lo, hi = tuple(a), tuple(b)
        if lo <= hi:
            if lo <= x <= hi:
                return True
        elif x >= lo or x <= hi:
            return True
    return False


def ref_datetime(ranges, x):
    x = tuple(x)
    return any(tuple(a) <= x < tuple(b) for a, b in ranges)


def us_to_t(x):
    x %= 86400 * 1_000_000
    s, us = divmod(x, 1_000_000)
    m, s = divmod(s, 60)
    h, m = divmod(m, 60)
    return (h, m, s, us)


def day_shift(d, delta):
    base = dt.date(404, d[0], d[1]) + dt.timedelta(days=delta)
    return (base.month, base.day)


def dt_shift(x, us):
    try:
        y = dt.datetime(*x) + dt.timedelta(microseconds=us)
    except OverflowError:
        return None
    return (y.year, y.month, y.day, y.hour, y.minute, y.second, y.microsecond)


# ---------- generators ----------
def g_time(rng):
    r = rng.random()
    if r < 0.5:
        return (rng.randrange(24), rng.choice([0, 15, 30, 45, 59, rng.randrange(60)]),
                rng.choice([0, 0, 30, 59, rng.randrange(60)]), 0)
    if r < 0.6:
        return (rng.choice([0, 23]), rng.choice([0, 59]), rng.choice([0, 59]),
                rng.choice([0, 999999]))
    return (rng.randrange(24), rng.randrange(60), rng.randrange(60),
            rng.choice([0, rng.randrange(1_000_000), rng.randrange(1000) * 1000, 500000, 1]))


def g_date(rng):
    r = rng.random()
    if r < 0.2:
        return rng.choice([(1, 1), (12, 31), (2, 28), (2, 29), (3, 1)])
    mon = rng.randrange(1, 13)
    return (mon, rng.randrange(1, MDAYS[mon] + 1))


def g_datetime(rng):
    r = rng.random()
    y = rng.choice([1970, 2000, 2024, 2025, 2030, rng.randrange(1000, 10000)])
    mon, day = g_date(rng)
    if (mon, day) == (2, 29) and not (y % 4 == 0 and (y % 100 or y % 400 == 0)):
        day = 28
    if r < 0.15:
        mon, day, t = rng.choice([(12, 31, (23, 59, 59, 999999)), (1, 1, (0, 0, 0, 0))])
        return (y, mon, day) + t
    return (y, mon, day) + g_time(rng)


GEN = {'time': g_time, 'date': g_date, 'datetime': g_datetime}

MALFORMED = [
    ('time', '24:00-1:00'), ('time', '12:60-13:00'), ('time', '12:30:60 - 13:00'),
    ('time', [[[24, 0], [1, 0]]]), ('time', [[[12, 60], [13, 0]]]), ('time', [[[-1, 0], [1, 0]]]),
    ('time', [[[1, 0, 0, 1000000], [2]]]), ('time', [[[], [1]]]), ('time', [[[1, 2, 3, 4, 5], [1]]]),
    ('time', '1:00-2:00-3:00'), ('time', '5:00'), ('time', '1:00-2:00,,3:00-4:00'),
    ('time', [[[1, 0], [2, 0], [3, 0]]]), ('time', [[[1, 0]]]), ('time', 5), ('time', [5]),
    ('time', None), ('time', 'T06:45+01:00/T07:00'), ('time', '06:45Z - 07:00'),
    ('time', '1:00/2:00/3:00'), ('time', 'abc-def'), ('time', '1.5:00-2:00'),
    ('time', '1:00 - '), ('time', ' - 1:00'), ('time', [['1:00', None]]),
    ('date', [[[13, 1], [1, 1]]]), ('date', '--1301/--0101'), ('date', 'Feb 30'),
    ('date', [[[2, 30], [3, 1]]]), ('date', 'Apr 31 - May 1'), ('date', [[[4, 31], [5, 1]]]),
    ('date', 'Ja 5'), ('date', 'Janx 5'), ('date', 'Foo 5'), ('date', 'Juny 5'),
    ('date', [[[0, 1], [1, 1]]]), ('date', [[[1, 0], [1, 1]]]), ('date', [[[1], [1, 1]]]),
    ('date', [[[1, 2, 3], [1, 1]]]), ('date', 'Mar 1 - Mar 2 - Mar 3'), ('date', 'March'),
    ('date', '5'), ('date', 'Mar 5 6'), ('date', 'Mar 32'), ('date', [[[1, 1], [1, 2], [1, 3]]]),
    ('date', 7), ('date', 'Jan 1,,Jan 3'),
    ('datetime', '2020 March 1 / 2020 March 2'), ('datetime', 'March 1 12:00 / March 2 12:00'),
    ('datetime', [[[2020, 1, 1, 0], [2020, 1, 2, 0, 0]]]),
    ('datetime', [[[2020, 1, 1, 0, 0, 0, 0, 0], [2021, 1, 1, 0, 0]]]),
    ('datetime', '2020-02-30 12:00 / 2020-03-01 12:00'),
    ('datetime', '2021 Feb 29 12:00 / 2021 Mar 1 12:00'),
    ('datetime', '2020-13-01T12:00/2020-12-31T12:00'),
    ('datetime', '2020 March 1 25:00 / 2020 March 2 12:00'),
    ('datetime', '2020 March 1 12:00'), ('datetime', '12:00'),
    ('datetime', '2020-01-01T12:00+01:00/2020-01-02T12:00+01:00'),
    ('datetime', '2020 Ma 1 12:00 / 2020 Mar 2 12:00'),
    ('datetime', '2020 Mar 1 12:00 / 2020 Mar 2 12:00 / 2020 Mar 3 12:00'),
    ('datetime', [[[2020, 1, 1, 24, 0], [2020, 1, 2, 0, 0]]]),
    ('datetime', '20 March 1 12:00 / 2020 March 2 12:00'),
    ('datetime', 3.5),
    # a token sitting between two digit groups without any white space must not fuse them
    ('date', '1jan5'), ('date', '2feb9 - mar 1'), ('date', '1mar2'), ('date', 'jan 1 - 1dec2'),
    ('datetime', '1mar2 2030 8:00 / 2031 mar 1 8:00'),
    ('datetime', '2010:3028 jul 5 / 2029 jul 5 10:30'),
    ('datetime', '2030 1jul2 8:00 / 2031 jul 1 8:00'),
    ('weekdays', '8'), ('weekdays', [8]), ('weekdays', [-1]), ('weekdays', 'x'),
    ('weekdays', '1,2'), ('weekdays', [1, 9]), ('weekdays', '19'),
]


def gen(ctx):
    rng = ctx.rng('gen')
    quick = ctx.tier == 'quick'
    n = 6000 if quick else 300000
    for i, (typ, spec) in enumerate(MALFORMED):
        if i % ctx.nshards == ctx.shard:
            yield {'type': 'malformed', 'of': typ, 'spec': spec}
    # generated malformed class: numeric endpoints with an element that is not an integer (a
    # fraction - e.g. seconds given as 59.5 instead of microseconds -, a digit string, None):
    # an error, not a silently truncated number
    for k in range(40 if quick else 4000):
        typ = rng.choice(['time', 'date', 'datetime'])

        def endpoint(typ=typ):
            if typ == 'time':
                return [rng.randrange(24), rng.randrange(60), rng.randrange(60),
                        rng.randrange(10 ** 6)][:rng.choice([1, 2, 3, 4])]
            if typ == 'date':
                return [rng.randrange(1, 13), rng.randrange(1, 29)]
            return [rng.randrange(1990, 2090), rng.randrange(1, 13), rng.randrange(1, 29),
                    rng.randrange(24), rng.randrange(60), rng.randrange(60),
                    rng.randrange(10 ** 6)][:rng.choice([5, 6, 7])]
        ends = sorted([endpoint(), endpoint()]) if typ == 'datetime' else [endpoint(), endpoint()]
        victim = rng.choice(ends)
        i = rng.randrange(len(victim))
        r = rng.random()
        if r < 0.7:
            victim[i] = victim[i] + rng.choice([0.5, 0.25, 0.999, 0.001])
            if i == 0 and typ == 'datetime' and ends[0] > ends[1]:
                continue
        elif r < 0.85:
            victim[i] = str(victim[i])
        else:
            victim[i] = None
        if k % ctx.nshards == ctx.shard:
            yield {'type': 'malformed', 'of': typ, 'spec': [ends]}
    # generated malformed class: a month name glued between two digit groups (no white space
    # on either side) must not be read as "month + fused digits"
    for k in range(12 if quick else 300):
        mon = rng.choice(MONTHS[1:])[:rng.choice([3, 3, 4, 9])]
        mon = rng.choice([mon, mon.lower(), mon.upper()])
        d1, d2 = rng.randrange(1, 4), rng.randrange(0, 10)
        glued = f"{d1}{mon}{d2}"
        form = rng.randrange(4)
        if form == 0:
            yield {'type': 'malformed', 'of': 'date', 'spec': glued}
        elif form == 1:
            yield {'type': 'malformed', 'of': 'date', 'spec': f"Jan 1 - {glued}"}
        elif form == 2:
            yield {'type': 'malformed', 'of': 'datetime',
                   'spec': f"{glued} 2030 8:00 / 2031 mar 1 8:00"}
        else:
            yield {'type': 'malformed', 'of': 'datetime',
                   'spec': f"2030 {glued} 08:00:00 / 2031-03-01T08:00"}
    # generated malformed class: a valid traditional date+time endpoint (every date notation)
    # followed by something that is not part of it - must be rejected, not silently dropped
    for k in range(24 if quick else 600):
        y, mo, d = rng.randrange(2000, 2040), rng.randrange(1, 13), rng.randrange(1, 29)
        mon = rng.choice(MONTHS[1:])
        mon = MONTHS[mo][:rng.choice([3, 9])]
        date = rng.choice([f"{y}-{mo:02d}-{d:02d}", f"{y}-{mon}-{d}", f"{y} {mon} {d}",
                           f"{d}. {mon} {y}", f"{mon} {d} {y}"])
        junk = rng.choice([' pm', ' UTC', ' Z', ' +01:00', ' 10:15', f" {y + 1}", ' x', ' am'])
        hm = f"{rng.randrange(0, 24)}:{rng.randrange(0, 60):02d}"
        bad = f"{date} {hm}{junk}"
        good = f"{y + 1}-01-01 0:00"
        yield {'type': 'malformed', 'of': 'datetime',
               'spec': rng.choice([f"{bad} / {good}", f"{good[:4]}-01-01 0:00 / {bad}".replace(
                   good[:4], str(y - 1), 1)])}
    for k in range(n):
        typ = rng.choice(['time', 'time', 'date', 'datetime', 'weekdays'])
        if typ == 'weekdays':
            wd = [rng.randrange(0, 8) for _ in range(rng.randrange(0, 8))]
            yield {'type': 'weekdays', 'wd': wd, 'rs': rng.randrange(1 << 30)}
            continue
        g = GEN[typ]
        nr = rng.choice([0, 1, 1, 1, 2, 2, 3, 4])
        ranges = []
        for _ in range(nr):
            a = g(rng)
            r = rng.random()
            if r < 0.15:
                b = a
            elif r < 0.3 and typ == 'time':
                b = us_to_t(t_us(a) + rng.choice([-1, 1, 1000, -1000000]))
            elif r < 0.3 and typ == 'date':
                b = day_shift(a, rng.choice([-1, 1, 30, -30]))
            else:
                b = g(rng)
            if typ == 'datetime' and rng.random() < 0.7 and tuple(b) < tuple(a):
                a, b = b, a
            ranges.append([list(a), list(b)])
        if rng.random() < 0.1 and ranges:
            ranges.append([list(ranges[0][0]), list(ranges[0][1])])    # duplicate range
        yield {'type': typ, 'ranges': ranges, 'rs': rng.randrange(1 << 30)}
    # generated malformed class, tried AFTER the valid cases of this process: a word that begins
    # like a month name but is not one ('Septic', 'Decent', 'Augur') - whatever was parsed before
    for k in range(30 if quick else 600):
        full = rng.choice(MONTHS[1:])
        word = full[:rng.choice([3, 4, 4, 5])] + rng.choice(['x', 'ic', 'zz', 'q', 'ent', 'uary'])
        if full.lower().startswith(word.lower()) or any(
                m.lower().startswith(word.lower()) for m in MONTHS[1:]):
            continue
        word = rng.choice([word, word.lower(), word.upper()])
        d = rng.randrange(1, 29)
        form = rng.randrange(4)
        if form == 0:
            yield {'type': 'malformed', 'of': 'date', 'spec': f"{word} {d}"}
        elif form == 1:
            yield {'type': 'malformed', 'of': 'date', 'spec': f"Jan 1 - {d}. {word}"}
        elif form == 2:
            yield {'type': 'malformed', 'of': 'datetime',
                   'spec': f"2030 {word} {d} 10:00 / 2031 mar 1 8:00"}
        else:
            yield {'type': 'malformed', 'of': 'datetime',
                   'spec': f"{d} {word} 2030 10:00 / 2031-03-01T08:00"}
    if ctx.shard == 0:
        # all days of the leap year against a few fixed intervals
        for ranges in ([[[12, 10], [1, 15]]], [[[2, 29], [2, 29]]], [[[3, 1], [2, 28]]],
                       [[[1, 1], [12, 31]]], [[[12, 31], [1, 1]]], []):
            yield {'type': 'date', 'ranges': ranges, 'rs': 1, 'alldays': True}


def run_case(case, ctx):
    try:
        _run_case(case, ctx)
    except core.Violation as v:
        ctx.violation(case, v.key, v.msg)
        ctx.case_done(case, True)


def _run_case(case, ctx):
    import edzed
    from edzed.blocklib import timeinterval as ti
    classes = {'time': ti.TimeInterval, 'date': ti.DateInterval, 'datetime': ti.DateTimeInterval}
    typ = case['type']
    if typ == 'malformed':
        of, spec = case['of'], case['spec']
        try:
            if of == 'weekdays':
                val = edzed.TimeDate.parse(None, None, spec)
            else:
                val = classes[of](spec).as_list()
        except Exception:
            ctx.count('malformed_rejected')
        else:
            raise core.Violation(
                f'malformed-accepted-{of}', f"{of} specification {spec!r} accepted as {val!r}")
        ctx.case_done(case, True, {'malformed': repr(spec), 'type': of, 'outcome': 'rejected'})
        return
    rng = random.Random(case['rs'])
    if typ == 'weekdays':
        wd = case['wd']
        exp = sorted({7 if x == 0 else x for x in wd})
        for form in (list(wd), tuple(wd),
                     ''.join(str(x) + rng.choice(['', '', ' ', '\t']) for x in wd)):
            ctx.count('parse_calls')
            got = edzed.TimeDate.parse(None, None, form)
            if got != {'times': None, 'dates': None, 'weekdays': exp}:
                raise core.Violation(
                    'weekdays-parse', f"TimeDate.parse(weekdays={form!r}) = {got!r}, expected {exp}")
        ctx.case_done(case, True, {'weekdays': wd, 'expected': exp})
        return

    cls = classes[typ]
    ranges = [(tuple(a), tuple(b)) for a, b in case['ranges']]
    expected = [[list(a), list(b)] for a, b in sorted(ranges)]
    ref = {'time': ref_time, 'date': ref_date, 'datetime': ref_datetime}[typ]
    notations = []
    objs = []
    for _ in range(4):
        spec = render_interval(rng, typ, ranges)
        notations.append(spec)
        try:
            obj = cls(spec)
        except Exception as err:
            raise core.Violation(
                f'valid-rejected-{typ}',
                f"{cls.__name__}({spec!r}) raised {err!r}; integers: {expected}")
        ctx.count('renderings_parsed')
        got = obj.as_list()
        exp_here = expected
        if isinstance(spec, set):
            exp_here = expected     # distinct ranges only (see render_interval)
        if got != exp_here:
            raise core.Violation(
                f'as_list-{typ}',
                f"{cls.__name__}({spec!r}).as_list() = {got!r}, expected {exp_here!r}")
        # the numeric form handed out belongs to the caller (retrieve - edit - send back is the
        # documented workflow): editing it in place must not leak into the interval itself nor
        # into any other export of the same endpoints
        for rng_ in got:
            for endpoint in rng_:
                if isinstance(endpoint, list):
                    for k in range(len(endpoint)):
                        endpoint[k] = 0
                    endpoint.append(-1)
        del got[:]
        objs.append(obj)
    for spec, obj in zip(notations, objs):
        again = obj.as_list()
        ctx.count('exports_after_inplace_edit')
        if again != expected:
            raise core.Violation(
                f'as_list-aliased-{typ}',
                f"{cls.__name__}({spec!r}).as_list() = {again!r} after an earlier export had been "
                f"edited in place by its owner, expected {expected!r}")
    # round trips
    obj = objs[0]
    for back_spec, what in ((obj.as_list(), 'as_list'), (obj.as_string(), 'as_string')):
        try:
            back = cls(back_spec)
        except Exception as err:
            raise core.Violation(
                f'roundtrip-{what}-{typ}', f"{cls.__name__}({back_spec!r}) raised {err!r}")
        ctx.count('roundtrips')
        if back.as_list() != expected:
            raise core.Violation(
                f'roundtrip-{what}-{typ}',
                f"{cls.__name__}({what}()={back_spec!r}).as_list() = {back.as_list()!r}, "
                f"expected {expected!r}")
    # parse class methods
    ctx.count('parse_calls')
    if typ == 'time':
        got = edzed.TimeDate.parse(notations[1], None, None)
        if got != {'times': expected, 'dates': None, 'weekdays': None}:
            raise core.Violation('parse-times', f"TimeDate.parse(times={notations[1]!r}) = {got!r}")
    elif typ == 'date':
        got = edzed.TimeDate.parse(None, notations[1], None)
        if got != {'times': None, 'dates': expected, 'weekdays': None}:
            raise core.Violation('parse-dates', f"TimeDate.parse(dates={notations[1]!r}) = {got!r}")
    else:
        got = edzed.TimeSpan.parse(notations[1])
        if got != expected:
            raise core.Violation('parse-span', f"TimeSpan.parse({notations[1]!r}) = {got!r}")
    # membership
    probes = []
    if typ == 'time':
        for a, b in ranges:
            for e in (a, b):
                for d in (-1, 0, 1, -1000000, 1000000):
                    probes.append(us_to_t(t_us(e) + d))
        probes += [g_time(rng) for _ in range(6)] + [(0, 0, 0, 0), (23, 59, 59, 999999)]
        mk = lambda p: dt.time(*p)
    elif typ == 'date':
        if case.get('alldays'):
            probes = [(m, d) for m in range(1, 13) for d in range(1, MDAYS[m] + 1)]
        else:
            for a, b in ranges:
                for e in (a, b):
                    for d in (-1, 0, 1):
                        probes.append(day_shift(e, d))
            probes += [g_date(rng) for _ in range(6)] + [(1, 1), (12, 31), (2, 29)]
        mk = lambda p: ti.convert_date_seq(list(p))
    else:
        for a, b in ranges:
            for e in (a, b):
                for d in (-1, 0, 1, -86400 * 1000000, 86400 * 1000000):
                    p = dt_shift(e, d)
                    if p is not None:
                        probes.append(p)
        probes += [g_datetime(rng) for _ in range(6)]
        mk = lambda p: dt.datetime(*p)
    for p in probes:
        ctx.count('membership_probes')
        exp = ref(ranges, p)
        for o in (objs[0], objs[-1]):
            got = mk(p) in o
            if got != exp:
                raise core.Violation(
                    f'membership-{typ}',
                    f"{p} in {cls.__name__}({expected}) is {got}, reference says {exp}")
    ctx.case_done(case, bool(ranges) or case.get('alldays', False),
                  {'type': typ, 'integers': expected, 'notations': [repr(n) for n in notations],
                   'probes': len(probes)})


def run_shard(ctx):
    for case in gen(ctx):
        run_case(case, ctx)


def replay(rep, ctx):
    run_case(rep['case'], ctx)
