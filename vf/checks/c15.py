"""
C15 - the finalized circuit's connection data is complete, consistent and frozen.

Invariant at a hook: after an explicit Circuit.finalize() and, separately, after a real start,
everything is recomputed from the generator's specification and compared.
"""

import random

from .. import core, harness, vloop

PROP = 'C15'
TECHNIQUE = ("runtime monitoring: invariant hook after Circuit.finalize() and after the start - connection data of the real circuit compared with the generator's wiring spec; invalid references must be refused")
LEVEL = 'exploration'
RULE = ("case = random connection specification over up to 8 blocks (Inputs, Not/And/Or/Xor/"
        "Override/FuncBlock) mixing references by object, by name, '_not_NAME' (to S- and C-"
        "blocks), Const and plain constants, unnamed and named groups of size 0..3, repeated "
        "references, forward references by name, events and filter control blocks given by name "
        "or object (incl. '_ctrl' and '_not_' names), random creation order; checked after "
        "explicit finalize() and (acyclic specs) after a real start; plus one case per class of "
        "invalid reference / frozen-circuit modification; distinct = canonical case; "
        "non-trivial = at least one CBlock input was resolved and compared")
ASSUMPTIONS = [
    "expected structure is computed from the generator's spec only ('A feeds B' incl. the "
    "inverter behind a shortcut), never from the circuit's own connection data",
    "invalid references must fail at construction, at finalize() or at the start (any "
    "exception; the simulation must not reach the running state)",
]
REQUIRED = {'inputs_resolved': 2000, 'biconditional_pairs': 5000, 'shortcut_inverters': 200,
            'event_dests_checked': 200, 'filter_ctrl_checked': 50, 'invalid_refs_rejected': 15,
            'frozen_checks': 50, 'after_start_checks': 50, 'explicit_finalize_checks': 200}
SHARDS = {'quick': 8, 'thorough': 16}
TIMEOUT = {'quick': 300, 'thorough': 3000}

CTYPES = ['Not', 'And', 'Or', 'Xor', 'Override', 'Func', 'Func']


def gen_spec(rng):
    n_in = rng.randrange(1, 4)
    n_c = rng.randrange(1, 7)
    # some circuits use block names that contain '_not_' themselves: only the PREFIX '_not_'
    # makes a shortcut; decoy blocks carry the names one would get by stripping every '_not_'
    mid = '_not_' if rng.random() < 0.25 else ''
    names = [f"i{mid}{k}" for k in range(n_in)] + [f"c{mid}{k}" for k in range(n_c)]
    acyclic = rng.random() < 0.7
    blocks = []
    for k in range(n_in):
        blocks.append({'name': f"i{mid}{k}", 'type': 'Input', 'events': []})
    if mid:
        for k in range(n_in + n_c):
            blocks.append({'name': names[k].replace('_not_', ''), 'type': 'Input', 'events': [],
                           'sink': True, 'decoy': True})
    for k in range(n_c):
        name = f"c{mid}{k}"
        pool = names[:n_in + k] if acyclic else names

        def ref():
            r = rng.random()
            if r < 0.15 or not pool:
                v = rng.choice([True, False, None, 0, 1, 1.0, 0.0, 5, 2.5, 'text', (1, 2)])
                wrapped = isinstance(v, (str, tuple)) or rng.random() < 0.5
                return ['const', v, wrapped]
            target = rng.choice(pool)
            if r < 0.35:
                return ['not', target]
            return ['blk', target, rng.random() < 0.5]
        t = rng.choice(CTYPES)
        b = {'name': name, 'type': t, 'args': [], 'kw': {}, 'kwgroup': {}}
        if t == 'Not':
            b['args'] = [ref()]
        elif t in ('And', 'Or', 'Xor'):
            b['args'] = [ref() for _ in range(rng.randrange(1, 4))]
            if rng.random() < 0.3:
                b['args'].append(list(b['args'][0]))     # repeated reference
        elif t == 'Override':
            b['kw'] = {'input': ref(), 'override': ref()}
        else:
            b['args'] = [ref() for _ in range(rng.randrange(0, 3))]
            for g in range(rng.randrange(0, 3)):
                if rng.random() < 0.5:
                    b['kw'][f"s{g}"] = ref()
                else:
                    b['kw'][f"g{g}"] = [ref() for _ in range(rng.randrange(0, 4))]
                    # (iterators are deprecated but documented as accepted: used only once)
                    b['kwgroup'][f"g{g}"] = rng.choice(['tuple', 'list', 'tuple', 'list', 'gen',
                                                        'iter', 'map'])
            if not b['args'] and not b['kw']:
                b['kw']['s0'] = ref()
        blocks.append(b)
    # sinks for events + events by name/object with filters
    n_sink = rng.randrange(0, 3)
    for k in range(n_sink):
        blocks.append({'name': f"k{k}", 'type': 'Input', 'events': [], 'sink': True})
    if n_sink:
        for b in blocks:
            if b.get('sink') or rng.random() < 0.5:
                continue
            for _ in range(rng.randrange(1, 3)):
                ev = {'dest': f"k{rng.randrange(n_sink)}", 'byname': rng.random() < 0.6,
                      'filter': None}
                r = rng.random()
                if r < 0.25:
                    ev['filter'] = ['ifoutput', rng.choice(names), rng.random() < 0.6]
                elif r < 0.35:
                    ev['filter'] = ['ifoutput', '_not_' + rng.choice(names), True]
                elif r < 0.45:
                    ev['filter'] = ['ifnotinit', f"k{rng.randrange(n_sink)}", rng.random() < 0.6]
                elif r < 0.7:
                    # DataEdit.add_output: few distinct sources, so the same name is referenced
                    # by several filters of the circuit
                    ev['filter'] = ['add_output', rng.choice(names[:2]), rng.random() < 0.8]
                    if rng.random() < 0.4:
                        # one DataEdit chain using the same key for two sources
                        ev['filter'].append(rng.choice(names))
                b.setdefault('events', []).append(ev)
    if rng.random() < 0.3:
        blocks[0].setdefault('events', []).append({'dest': '_ctrl', 'byname': True, 'filter': None,
                                                   'etype': 'abort-never'})
    order = [b['name'] for b in blocks]
    rng.shuffle(order)
    return {'blocks': blocks, 'order': order, 'acyclic': acyclic}


def all_refs(b):
    for r in b.get('args', []):
        yield '_', r
    for k, v in b.get('kw', {}).items():
        if k in b.get('kwgroup', {}):
            for r in v:
                yield k, r
        else:
            yield k, v


def build(spec, evreg):
    import edzed
    created = {}
    byname = {b['name']: b for b in spec['blocks']}
    NotIfInit = getattr(edzed, 'NotIfInitialized', None) or getattr(edzed, 'IfNotIitialized')

    def mkref(r):
        if r[0] == 'blk':
            return created[r[1]] if (r[2] and r[1] in created) else r[1]
        if r[0] == 'not':
            return '_not_' + r[1]
        return edzed.Const(r[1]) if r[2] else r[1]

    def mkevents(b):
        evs = []
        for e in b.get('events', []):
            flt = None
            if e['filter']:
                kind, ctrl, byname_ctrl = e['filter'][:3]
                ctrl_ref = ctrl if (byname_ctrl or ctrl not in created) else created[ctrl]
                if kind == 'add_output' and len(e['filter']) > 3:
                    second = e['filter'][3]
                    second_ref = second if (byname_ctrl or second not in created) else created[second]
                    flt = edzed.DataEdit.add_output('src_output', ctrl_ref).rename(
                        'src_output', 'first').add_output('src_output', second_ref).rename(
                        'src_output', 'second').copy('first', 'src_output')
                elif kind == 'add_output':
                    flt = edzed.DataEdit.add_output('src_output', ctrl_ref)
                else:
                    flt = edzed.IfOutput(ctrl_ref) if kind == 'ifoutput' else NotIfInit(ctrl_ref)
            dest = e['dest'] if (e['byname'] or e['dest'] not in created) else created[e['dest']]
            if e.get('etype') == 'abort-never':
                ev = edzed.Event(dest, 'abort', efilter=lambda d: False)
            else:
                ev = edzed.Event(dest, 'put', efilter=flt)
            evreg.append((ev, e, flt))
            evs.append(ev)
        return evs or None

    for name in spec['order']:
        b = byname[name]
        evs = mkevents(b)
        t = b['type']
        if t == 'Input':
            created[name] = edzed.Input(name, initdef=False, on_output=evs)
            continue
        if t in ('Not', 'And', 'Or', 'Xor', 'Override'):
            blk = getattr(edzed, t)(name, on_output=evs)
        else:
            blk = edzed.FuncBlock(name, func=lambda *a, **k: len(a) + len(k), on_output=evs)
        args = [mkref(r) for r in b['args']]
        kw = {}
        for k, v in b['kw'].items():
            if k in b['kwgroup']:
                grp = [mkref(r) for r in v]
                form = b['kwgroup'][k]
                kw[k] = {'tuple': tuple, 'list': list, 'gen': lambda g: (x for x in g),
                         'iter': iter, 'map': lambda g: map(lambda x: x, g)}[form](grp)
            else:
                kw[k] = mkref(v)
        blk.connect(*args, **kw)
        created[name] = blk
    return created


def check_structure(spec, circuit, created, evreg, ctx, where, frozen=True):
    import edzed
    blocks = {b.name: b for b in circuit.getblocks()}
    # expected feeds relation (with inverter expansion)
    feeds = set()       # (A, B): A feeds B
    inverters = set()
    for b in spec['blocks']:
        if b['type'] == 'Input':
            continue
        for _, r in all_refs(b):
            if r[0] == 'blk':
                feeds.add((r[1], b['name']))
            elif r[0] == 'not':
                inverters.add(r[1])
                feeds.add(('_not_' + r[1], b['name']))
    for e_b in spec['blocks']:
        for e in e_b.get('events', []):
            if e['filter'] and e['filter'][1].startswith('_not_'):
                inverters.add(e['filter'][1][5:])
    for x in inverters:
        feeds.add((x, '_not_' + x))
    # 1. inputs resolved to the right objects
    for b in spec['blocks']:
        if b['type'] == 'Input':
            continue
        blk = blocks[b['name']]
        exp_sig = {}
        if b['args']:
            exp_sig['_'] = len(b['args'])
        for k, v in b['kw'].items():
            exp_sig[k] = len(v) if k in b['kwgroup'] else None
        if blk.input_signature() != exp_sig:
            raise core.Violation('input-signature', f"{where}: {b['name']} signature "
                                 f"{blk.input_signature()} expected {exp_sig}")
        # the returned descriptions are the caller's to analyse (pop the known items ...):
        # whatever the caller does to them, the block keeps describing the same structure
        ctx.count('descriptions_modified_by_caller')
        try:
            got = blk.check_signature({})
        except Exception:       # pylint: disable=broad-except
            got = blk.input_signature()
        for victim in (got, blk.input_signature(), blk.get_conf().get('inputs')):
            if isinstance(victim, dict):
                victim.pop(next(iter(victim), None), None)
                victim['vf_bogus'] = 99
        if blk.input_signature() != exp_sig:
            raise core.Violation('input-signature', f"{where}: {b['name']} signature is "
                                 f"{blk.input_signature()} after a caller modified the returned "
                                 f"dict; expected {exp_sig}")
        conf = blk.get_conf().get('inputs')
        if conf is None or set(conf) != set(exp_sig):
            raise core.Violation('get_conf-inputs', f"{where}: {b['name']} get_conf inputs {conf}")
        groups = {}
        for iname, r in all_refs(b):
            groups.setdefault(iname, []).append(r)
        for iname, refs in groups.items():
            real = blk.inputs[iname]
            is_group = iname == '_' or iname in b['kwgroup']
            if is_group != isinstance(real, tuple):
                raise core.Violation('input-shape', f"{where}: {b['name']}.{iname} shape {real!r}")
            reals = real if is_group else (real,)
            confnames = conf[iname] if is_group else (conf[iname],)
            if len(reals) != len(refs):
                raise core.Violation('input-count', f"{where}: {b['name']}.{iname}")
            if len(confnames) != len(refs):
                raise core.Violation('get_conf-inputs', f"{where}: {b['name']}.{iname}: get_conf "
                                     f"lists {confnames} for {len(refs)} inputs")
            for r, obj, cname in zip(refs, reals, confnames):
                ctx.count('inputs_resolved')
                if r[0] == 'const':
                    # (0 / False / 0.0 and 1 / True / 1.0 are different constants: "the right
                    # object" carries a value of the very type that was connected)
                    if (not isinstance(obj, edzed.Const) or obj.output != r[1]
                            or type(obj.output) is not type(r[1])):
                        raise core.Violation(
                            'constant-not-wrapped', f"{where}: {b['name']}.{iname}: constant "
                            f"{r[1]!r} became {obj!r}")
                    continue
                exp_name = r[1] if r[0] == 'blk' else '_not_' + r[1]
                if obj is not blocks.get(exp_name):
                    raise core.Violation(
                        'input-resolved-to-wrong-object',
                        f"{where}: {b['name']}.{iname} ref {r} resolved to {obj!r}, expected the "
                        f"block named {exp_name!r}")
                if cname != exp_name:
                    raise core.Violation('get_conf-inputs', f"{where}: {b['name']}.{iname}: {cname}")
        for iname in groups.keys() ^ set(blk.inputs):
            if not (iname in b['kwgroup'] and not b['kw'][iname]):
                raise core.Violation('input-names', f"{where}: {b['name']} inputs {list(blk.inputs)}")
    # 2. inverters: exactly once, Not block fed by the right block
    for x in inverters:
        ctx.count('shortcut_inverters')
        inv = blocks.get('_not_' + x)
        if not isinstance(inv, edzed.Not):
            raise core.Violation('shortcut-inverter-missing', f"{where}: no Not block '_not_{x}'")
        if inv.inputs.get('_') != (blocks[x],):
            raise core.Violation('shortcut-inverter-wrong-input',
                                 f"{where}: _not_{x} is connected to {inv.inputs}")
    extra = [n for n in blocks if n.startswith('_not_') and n[5:] not in inverters]
    if extra:
        raise core.Violation('unexpected-inverter', f"{where}: unexpected blocks {extra}")
    if sum(1 for b in circuit.getblocks() if b.name.startswith('_not_')) != len(inverters):
        raise core.Violation('duplicate-inverter', f"{where}: inverter count")
    # 3. biconditional
    for an, a in blocks.items():
        for bn, b in blocks.items():
            if not isinstance(b, edzed.CBlock):
                if an == bn and a.oconnections - {x for x in blocks.values()
                                                  if isinstance(x, edzed.CBlock)}:
                    raise core.Violation('oconnection-to-non-cblock', f"{where}: {an}")
                continue
            ctx.count('biconditional_pairs')
            f = (an, bn) in feeds
            o = b in a.oconnections
            i = a in b.iconnections
            if not (f == o == i):
                raise core.Violation(
                    'connection-biconditional',
                    f"{where}: A={an}, B={bn}: A feeds B per spec={f}, B in A.oconnections={o}, "
                    f"A in B.iconnections={i}")
    for a in blocks.values():
        stray = [x for x in a.oconnections if x not in blocks.values()]
        if stray:
            raise core.Violation('oconnection-stray', f"{where}: {a.name} -> {stray}")
    # 5. events and filter control blocks
    for ev, e, flt in evreg:
        ctx.count('event_dests_checked')
        try:
            dest = ev.dest
        except Exception as err:
            raise core.Violation(
                'event-dest-unresolved-after-finalize',
                f"{where}: Event(dest={e['dest']!r} given by name).dest raised {err!r} after "
                "finalisation")
        if dest is not blocks.get(e['dest']):
            raise core.Violation('event-dest-wrong', f"{where}: dest {dest!r} for {e['dest']!r}")
        if flt is not None and e['filter'][0] == 'add_output':
            # no attribute to inspect: the filter is run, it must read the output of the block
            ctx.count('add_output_sources_checked')
            src = blocks.get(e['filter'][1])
            # every block gets a distinguishable output for the duration of the call (no await
            # in between; the real outputs are mostly UNDEF / False here)
            saved = {b: b._output for b in blocks.values()}
            try:
                for n, b in blocks.items():
                    b._output = ('vf-output-of', n)
                res = flt({'vf': 1})
            except Exception as err:
                raise core.Violation(
                    'filter-source-unresolved',
                    f"{where}: DataEdit.add_output(..., {e['filter'][1]!r}) raised {err!r} when "
                    "called after the finalisation")
            finally:
                for b, v in saved.items():
                    b._output = v
            want = {'vf': 1, 'src_output': ('vf-output-of', e['filter'][1])}
            if len(e['filter']) > 3:
                want.update(first=('vf-output-of', e['filter'][1]),
                            second=('vf-output-of', e['filter'][3]))
            if res != want:
                raise core.Violation(
                    'filter-source-wrong',
                    f"{where}: DataEdit.add_output chain over {e['filter'][1:]} produced {res!r}, "
                    f"expected {want!r}")
        elif flt is not None:
            ctx.count('filter_ctrl_checked')
            if flt._ctrl_blk is not blocks.get(e['filter'][1]):
                raise core.Violation(
                    'filter-control-block-unresolved',
                    f"{where}: filter control block {e['filter'][1]!r} is {flt._ctrl_blk!r}")
    # 7. frozen (probes create objects in the CURRENT circuit: skipped for a circuit that the
    # harness has already replaced)
    if not frozen:
        return
    for what, fn in (
            ('new block', lambda: edzed.Input('late_block', initdef=0)),
            ('connect', lambda: next(b for b in blocks.values()
                                     if isinstance(b, edzed.CBlock)).connect(1)),
            ('storage', lambda: circuit.set_persistent_data({})),
            ('new cblock', lambda: edzed.Not('late_not')),
            ('auto-named block', lambda: edzed.Input(None, initdef=0)),
            ('auto-named cblock', lambda: edzed.Not(None)),
            ('event with repeat (implicit Repeat block)',
             lambda: edzed.Event(next(b for b in blocks.values()
                                       if isinstance(b, edzed.SBlock)), 'put', repeat=5))):
        ctx.count('frozen_checks')
        nblocks = len(circuit._blocks)
        try:
            try:
                fn()
            finally:
                if len(circuit._blocks) != nblocks:
                    raise core.Violation(
                        'modification-accepted-after-finalize',
                        f"{where}: {what}: the circuit has {len(circuit._blocks)} blocks, "
                        f"{nblocks} before")
        except edzed.EdzedInvalidState:
            pass
        except StopIteration:
            pass
        except Exception as err:
            raise core.Violation('frozen-wrong-exception', f"{where}: {what}: {err!r}")
        else:
            raise core.Violation(f"modification-accepted-after-finalize-{what.replace(' ', '-')}",
                                 f"{where}: {what} accepted in a finalized circuit")
    if 'late_block' in circuit._blocks or 'late_not' in circuit._blocks:
        raise core.Violation('modification-accepted-after-finalize', f"{where}: block registered")


def run_spec(case, ctx):
    import edzed
    spec = case['spec']
    # A: explicit finalize
    edzed.reset_circuit()
    evreg = []
    created = build(spec, evreg)
    circuit = edzed.get_circuit()
    spare = edzed.FuncBlock('spare', func=lambda *a, **k: 0)    # never connected
    spare2 = edzed.FuncBlock('spare2', func=lambda *a, **k: 0)  # never connected either
    case_state = {'spare2': spare2, 'circuit_a': circuit}
    try:
        circuit.finalize()
    except Exception as err:
        raise core.Violation('finalize-failed', f"finalize() of a valid spec raised {err!r}")
    ctx.count('explicit_finalize_checks')
    check_structure(spec, circuit, created, evreg, ctx, 'after explicit finalize()')
    ctx.count('frozen_checks')
    try:
        spare.connect(1, x='i0')
    except edzed.EdzedInvalidState:
        pass
    else:
        raise core.Violation('modification-accepted-after-finalize-connect',
                             "connect() of a not yet connected block accepted after finalize()")
    if spare.inputs:
        raise core.Violation('modification-accepted-after-finalize-connect', "inputs were stored")
    # A2: a circuit that was explicitly finalized must still start
    startable = spec['acyclic']
    if startable and case.get('start_after_finalize'):
        res = {}
        # references by name created AFTER the explicit finalize() (events and filters are not
        # blocks, creating them is allowed): they must be resolved when the simulation starts
        sname = next((n for n, b in created.items() if isinstance(b, edzed.SBlock)), None)
        late = {}
        if sname is not None:
            late['ev'] = edzed.Event(sname, 'vf_late')
            late['flt'] = edzed.IfOutput(sname)

        async def main(loop):
            sim = harness.Sim()
            ok = await sim.start()
            res['ok'] = ok
            res['err'] = sim.init_exc
            if ok:
                check_structure(spec, circuit, created, evreg, ctx, 'after finalize() + start')
                if late:
                    ctx.count('late_references_checked')
                    try:
                        dest = late['ev'].dest
                    except Exception as err:    # pylint: disable=broad-except
                        raise core.Violation(
                            'late-reference-unresolved-after-start',
                            f"Event({sname!r}) created after an explicit finalize(): .dest raises "
                            f"{err!r} in the running circuit") from None
                    if dest is not created[sname] or late['flt']._ctrl_blk is not created[sname]:
                        raise core.Violation(
                            'late-reference-unresolved-after-start',
                            f"references to {sname!r} created after an explicit finalize() resolved "
                            f"to {dest!r} / {late['flt']._ctrl_blk!r}")
            await sim.stop()
            if ok:
                # the connection data stay as they are when the simulation has stopped
                ctx.count('after_stop_checks')
                check_structure(spec, circuit, created, evreg, ctx, 'after the stop')
        _, _, exc = vloop.run(main)
        if isinstance(exc, core.Violation):
            raise exc
        if exc is not None:
            raise exc
        if not res.get('ok'):
            raise core.Violation(
                'start-fails-after-explicit-finalize',
                f"the circuit was finalized explicitly and then failed to start: {res.get('err')}")
    edzed.reset_circuit()
    # A3: the finalized circuit stays frozen also when another circuit has become the current one
    ctx.count('frozen_checks')
    try:
        spare2.connect(1, x='i0')
    except edzed.EdzedInvalidState:
        pass
    except Exception as err:
        raise core.Violation('frozen-wrong-exception',
                             f"connect() in a finalized circuit that is no longer current: {err!r}")
    else:
        raise core.Violation('modification-accepted-after-finalize-connect',
                             "connect() of a not yet connected block of a finalized circuit "
                             "accepted after reset_circuit() had made another circuit current")
    if spare2.inputs:
        raise core.Violation('modification-accepted-after-finalize-connect', "inputs were stored")
    # B: plain start
    if startable:
        evreg2 = []
        box = {}

        def b():
            box['created'] = build(spec, evreg2)
            return box['created']

        async def drive(sim, created2):
            ctx.count('after_start_checks')
            check_structure(spec, sim.circuit, created2, evreg2, ctx, 'after the start')
            return True
        out = harness.run_sim(b, drive)
        if isinstance(out['exc'], core.Violation):
            raise out['exc']
        if out['exc'] is not None and not isinstance(out['exc'], vloop.Deadlock):
            raise out['exc']
        if not out.get('started'):
            raise core.Violation('start-failed', f"valid acyclic spec did not start: {out['sim'].init_exc}")
        ctx.count('after_stop_checks')
        check_structure(spec, out['sim'].circuit, box['created'], evreg2, ctx, 'after the stop',
                        frozen=False)


# ---------------- invalid references ----------------
def invalid_cases():
    import edzed

    def unknown_input():
        edzed.Not('n').connect('nosuch')

    def unknown_not():
        edzed.Not('n').connect('_not_nosuch')

    def double_underscore_not():
        edzed.Input('_x', initdef=0, _reserved=True)
        edzed.Not('n').connect('_not__x')

    def foreign_block():
        old = edzed.Input('old', initdef=0)
        edzed.reset_circuit()
        edzed.Input('keep', initdef=0)
        edzed.Not('n').connect(old)

    def foreign_block_same_name():
        old = edzed.Input('old', initdef=0)
        edzed.reset_circuit()
        edzed.Input('old', initdef=0)
        edzed.Not('n').connect(old)

    def foreign_event_dest():
        old = edzed.Input('old', initdef=0)
        edzed.reset_circuit()
        edzed.Input('old', initdef=0)
        edzed.Input('a', initdef=0, on_output=edzed.Event(old))

    def event_dest_unknown():
        edzed.Input('a', initdef=0, on_output=edzed.Event('nosuch'))

    def event_dest_cblock():
        edzed.Not('n').connect('a')
        edzed.Input('a', initdef=0, on_output=edzed.Event('n', efilter=edzed.not_from_undef))

    def event_dest_cblock_obj():
        n = edzed.Not('n').connect('a')
        edzed.Input('a', initdef=0, on_output=edzed.Event(n))

    def cblock_name_any_then_sblock():
        # the same name referenced first where any block is accepted (IfOutput control block)
        # and then where a sequential block is required (event destination)
        edzed.Not('gate').connect('a')
        edzed.Input('b', initdef=0)
        edzed.Input('a', initdef=0, on_output=edzed.Event(
            'b', efilter=(edzed.not_from_undef, edzed.IfOutput('gate'))))
        edzed.Input('c', initdef=0, on_output=edzed.Event('gate', efilter=edzed.not_from_undef))

    def cblock_name_add_output_then_ifnotinit():
        f = getattr(edzed, 'NotIfInitialized', None) or getattr(edzed, 'IfNotIitialized')
        edzed.Not('gate').connect('a')
        edzed.Input('b', initdef=0)
        edzed.Input('a', initdef=0, on_output=edzed.Event(
            'b', efilter=(edzed.not_from_undef, edzed.DataEdit.add_output('g', 'gate'))))
        edzed.Input('c', initdef=0, on_output=edzed.Event(
            'b', efilter=(edzed.not_from_undef, f('gate'))))

    def sblock_name_then_cblock_required():
        # a sequential block's name where a combinational one cannot be (control of an event
        # is fine) - the reverse order of the first case
        edzed.Not('gate').connect('a')
        edzed.Input('c', initdef=0, on_output=edzed.Event('gate', efilter=edzed.not_from_undef))
        edzed.Input('b', initdef=0)
        edzed.Input('a', initdef=0, on_output=edzed.Event(
            'b', efilter=(edzed.not_from_undef, edzed.IfOutput('gate'))))

    def filter_ctrl_unknown():
        edzed.Input('b', initdef=0)
        edzed.Input('a', initdef=0, on_output=edzed.Event('b', efilter=edzed.IfOutput('nosuch')))

    def ifnotinit_cblock():
        f = getattr(edzed, 'NotIfInitialized', None) or getattr(edzed, 'IfNotIitialized')
        edzed.Not('n').connect('a')
        edzed.Input('b', initdef=0)
        edzed.Input('a', initdef=0, on_output=edzed.Event(
            'b', efilter=(edzed.not_from_undef, f('n'))))

    def not_unconnected():
        edzed.Input('a', initdef=0)
        edzed.Not('n')

    def not_two_inputs():
        edzed.Input('a', initdef=0)
        edzed.Not('n').connect('a', 'a')

    def override_missing():
        edzed.Input('a', initdef=0)
        edzed.Override('o').connect(input='a')

    def override_group():
        edzed.Input('a', initdef=0)
        edzed.Override('o').connect(input=['a'], override='a')

    def override_empty_group():
        edzed.Input('a', initdef=0)
        edzed.Override('o').connect(input=(), override='a')

    def override_empty_list():
        edzed.Input('a', initdef=0)
        edzed.Override('o').connect(input='a', override=[])

    def custom_single_given_empty_group():
        class CB(edzed.CBlock):
            def calc_output(self):
                return 0

            def start(self):
                super().start()
                self.check_signature({'x': None})
        edzed.Input('a', initdef=0)
        CB('c').connect(x=[])

    def custom_group_given_single():
        class CB(edzed.CBlock):
            def calc_output(self):
                return 0

            def start(self):
                super().start()
                self.check_signature({'g': [0, None]})
        edzed.Input('a', initdef=0)
        CB('c').connect(g='a')

    def custom_group_too_short():
        class CB(edzed.CBlock):
            def calc_output(self):
                return 0

            def start(self):
                super().start()
                self.check_signature({'g': [1, None]})
        edzed.Input('a', initdef=0)
        CB('c').connect(g=())

    def funcblock_mismatch():
        edzed.Input('a', initdef=0)
        edzed.FuncBlock('f', func=lambda x, y: 0).connect('a')

    def and_named_input():
        # And/Or/Xor take unnamed inputs only: a named one is a wrongly shaped input
        edzed.Input('a', initdef=0)
        edzed.Input('en', initdef=1)
        edzed.And('g').connect('a', 'a', enable='en')

    def xor_named_group():
        edzed.Input('a', initdef=0)
        edzed.Xor('g').connect(inputs=('a', 'a'))

    def packed_funcblock_unknown_keyword():
        edzed.Input('a', initdef=0)
        edzed.FuncBlock('f', func=lambda args: len(args), unpack=False).connect('a', extra='a')

    def duplicate_name():
        edzed.Input('a', initdef=0)
        edzed.Input('a', initdef=0)

    def duplicate_name_sc():
        edzed.Input('a', initdef=0)
        edzed.Not('a').connect('a')

    def connect_twice():
        edzed.Input('a', initdef=0)
        edzed.Not('n').connect('a').connect('a')

    def connect_nothing():
        edzed.Input('a', initdef=0)
        edzed.And('n').connect()

    def group_as_positional():
        edzed.Input('a', initdef=0)
        edzed.And('n').connect(['a', 'a'])

    def reserved_input_name():
        edzed.Input('a', initdef=0)
        edzed.FuncBlock('f', func=lambda **k: 0).connect(_='a')

    def ext_event_cblock():
        edzed.Input('a', initdef=0)
        n = edzed.Not('n').connect('a')
        edzed.ExtEvent(n)

    def ext_event_unknown():
        edzed.Input('a', initdef=0)
        edzed.ExtEvent('nosuch')

    def ext_event_cblock_by_name():
        edzed.Input('a', initdef=0)
        edzed.Not('n').connect('a')
        edzed.ExtEvent('n')

    def ext_event_funcblock_by_name():
        edzed.Input('a', initdef=0)
        edzed.FuncBlock('both', func=lambda a, b: a and b).connect('a', 'a')
        edzed.ExtEvent('both', 'put')

    def ext_event_inverter_by_name():
        edzed.Input('a', initdef=0)
        edzed.And('g').connect('_not_a', 'a')
        edzed.get_circuit().finalize()
        edzed.ExtEvent('_not_a')

    return [(f.__name__, f) for f in (
        unknown_input, unknown_not, double_underscore_not, foreign_block, foreign_block_same_name,
        foreign_event_dest, event_dest_unknown,
        event_dest_cblock, event_dest_cblock_obj, cblock_name_any_then_sblock,
        cblock_name_add_output_then_ifnotinit, sblock_name_then_cblock_required, filter_ctrl_unknown, ifnotinit_cblock,
        not_unconnected, not_two_inputs, override_missing, override_group, override_empty_group,
        override_empty_list, custom_single_given_empty_group, custom_group_given_single,
        custom_group_too_short, funcblock_mismatch, and_named_input, xor_named_group,
        packed_funcblock_unknown_keyword,
        duplicate_name, duplicate_name_sc, connect_twice, connect_nothing, group_as_positional,
        reserved_input_name, ext_event_cblock, ext_event_unknown, ext_event_cblock_by_name,
        ext_event_funcblock_by_name, ext_event_inverter_by_name)]


def run_invalid(name, fn, ctx):
    import edzed
    case = {'invalid': name}
    stage = None
    edzed.reset_circuit()
    try:
        fn()
    except Exception:
        stage = 'construction'
    if stage is None:
        # via explicit finalize
        try:
            edzed.get_circuit().finalize()
        except Exception:
            stage = 'finalize'
    if stage == 'finalize':
        # the application catches the error and tries again with the very same circuit: a
        # second finalize() and a start must fail as well (nothing may have been 'forgotten')
        ctx.count('retries_after_failed_finalize')
        retry = {}
        try:
            edzed.get_circuit().finalize()
            retry['finalize'] = 'accepted'
        except Exception:   # pylint: disable=broad-except
            retry['finalize'] = 'refused'

        async def retry_main(loop):
            sim = harness.Sim()
            retry['started'] = await sim.start()
            await sim.stop()
        try:
            vloop.run(retry_main)
        except Exception:   # pylint: disable=broad-except
            retry['started'] = False
        if retry['finalize'] == 'accepted' or retry.get('started'):
            ctx.violation(case, f"invalid-reference-accepted-on-retry-{name}",
                          f"invalid circuit ({name}): the first finalize() failed, the second "
                          f"attempt: finalize() {retry['finalize']}, started={retry.get('started')}")
            ctx.case_done(case, True)
            edzed.reset_circuit()
            return
    if stage is None or stage == 'finalize':
        # ... and it must not start either (fresh circuit: finalize() must not be a loophole)
        edzed.reset_circuit()
        try:
            fn()
            res = {}

            async def main(loop):
                sim = harness.Sim()
                res['ok'] = await sim.start()
                await sim.stop()
            vloop.run(main)
            if res.get('ok'):
                ctx.violation(case, f"invalid-reference-accepted-{name}",
                              f"invalid circuit ({name}) reached the running state")
                ctx.case_done(case, True)
                edzed.reset_circuit()
                return
            stage = stage or 'start'
        except Exception:
            stage = stage or 'start'
    ctx.count('invalid_refs_rejected')
    ctx.case_done(case, True, {'invalid': name, 'rejected_at': stage})
    edzed.reset_circuit()


def gen(ctx):
    rng = ctx.rng('gen')
    n = 1200 if ctx.tier == 'quick' else 70000
    for k in range(n):
        yield {'spec': gen_spec(rng), 'start_after_finalize': k % 2 == 0}


def run_case(case, ctx):
    import edzed
    try:
        run_spec(case, ctx)
    except core.Violation as v:
        ctx.violation(case, v.key, v.msg)
        ctx.case_done(case, True)
        edzed.reset_circuit()
        return
    ncb = sum(1 for b in case['spec']['blocks'] if b['type'] != 'Input')
    ctx.case_done(case, ncb > 0, {'spec': case['spec']})


def run_shard(ctx):
    for case in gen(ctx):
        run_case(case, ctx)
    if ctx.shard == 0:
        for name, fn in invalid_cases():
            run_invalid(name, fn, ctx)


def replay(rep, ctx):
    case = rep['case']
    if 'invalid' in case:
        for name, fn in invalid_cases():
            if name == case['invalid']:
                run_invalid(name, fn, ctx)
    else:
        run_case(case, ctx)
