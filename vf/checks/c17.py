"""
C17 - an Input never outputs a value its validators reject.

History + reference accumulator; validators are generated as tables over a small value domain.
"""

from .. import core, harness, vloop

PROP = 'C17'
TECHNIQUE = ('runtime monitoring: reference accumulator (allowed, check, schema in the documented order) compared with outputs and return values of Input/InputExp over generated put sequences')
LEVEL = 'exploration'
RULE = ("case = (block kind Input/InputExp, allowed subset or None, check table or None, schema "
        "table or None (entries may raise), initdef/expired/stored values, put sequence of "
        "length<=6 over the 11-value domain incl. 1, True, 1.0 and 0, False); every put's return value, the output and get_state() "
        "after it are compared with the reference accumulator; constructor refusal of invalid "
        "initdef/expired checked in separate circuits; distinct = canonical case; non-trivial = "
        "at least one put compared or one constructor refusal observed")
ASSUMPTIONS = [
    "reference: accepted iff (allowed is None or any(v == a for a in allowed)) and "
    "(check is None or truthy check(v)) and (schema is None or schema(v) does not raise); "
    "output := schema(v) or v; an unhashable value is simply 'not among allowed'",
    "check functions never raise and schema never returns UNDEF (outside the property)",
    "restore-validation judged for Input only (the property's last sentence; InputExp restores "
    "an FSM state)",
]
REQUIRED = {'allowed_collection_mutated': 50, 'puts_compared': 1000, 'rejections_seen': 200, 'acceptances_seen': 200,
            'ctor_refusals': 20, 'restores_checked': 20, 'inputexp_invalid_saved_value': 20, 'schema_raised': 50,
            'unhashable_puts': 10}
SHARDS = {'quick': 8, 'thorough': 16}
TIMEOUT = {'quick': 300, 'thorough': 3000}

# (1, True and 1.0 - 0 and False - are equal, hash alike and are still different values for a
# validator: each has its own row in the check and schema tables)
DOMAIN = [0, 1, 2, 'a', None, 3.5, (1,), True, False, 1.0, [1]]
HASHABLE = DOMAIN[:-1]
CHECK_RETS = [True, False, 1, 0, 'yes', '', None, [0], []]
SCHEMA_OUT = [0, 1, 2, 'a', None, 3.5, (1,), 'S', 99, [7], True, 0.0]
class SchemaInvalid(Exception):
    """A validation library's own error class (derived directly from Exception)."""


EXCS = [ValueError, TypeError, KeyError, ZeroDivisionError, SchemaInvalid, AssertionError]


def dom_index(v):
    for i, d in enumerate(DOMAIN):
        if type(d) is type(v) and d == v:
            return i
    raise KeyError(v)


class Validators:
    def __init__(self, case, log):
        self.allowed = None if case['allowed'] is None else [DOMAIN[i] for i in case['allowed']]
        self.check_tab = case['check']
        self.schema_tab = case['schema']
        self.log = log

    def kwargs(self, as_list):
        kw = {}
        if self.allowed is not None:
            # list / tuple / set / frozenset: whatever collection is given, the block must keep
            # its own snapshot (the harness empties or pollutes the mutable ones afterwards)
            form = (len(self.allowed) + (1 if as_list else 0)) % 4
            coll = [list, tuple, set, frozenset][form](self.allowed)
            kw['allowed'] = coll
            self.given_collection = coll
        if self.check_tab is not None:
            kw['check'] = self.check
        if self.schema_tab is not None:
            kw['schema'] = self.schema
        return kw

    def check(self, value):
        self.log.append(('check', value))
        return CHECK_RETS[self.check_tab[dom_index(value)]]

    def schema(self, value):
        self.log.append(('schema', value))
        kind, arg = self.schema_tab[dom_index(value)]
        if kind == 'raise':
            raise EXCS[arg](f"schema rejects {value!r}")
        return SCHEMA_OUT[arg]

    # ---- reference ----
    def ref(self, value):
        """Return (accepted, output_value)."""
        if self.allowed is not None and not any(
                type(value) is type(a) and value == a or (value == a) for a in self.allowed):
            return False, None
        i = dom_index(value)
        if self.check_tab is not None and not CHECK_RETS[self.check_tab[i]]:
            return False, None
        if self.schema_tab is not None:
            kind, arg = self.schema_tab[i]
            if kind == 'raise':
                return False, None
            return True, SCHEMA_OUT[arg]
        return True, value


def gen_validators(rng):
    allowed = None
    if rng.random() < 0.6:
        allowed = sorted(rng.sample(range(len(HASHABLE)), rng.randrange(0, len(HASHABLE) + 1)))
    check = None
    if rng.random() < 0.55:
        check = [rng.randrange(len(CHECK_RETS)) for _ in DOMAIN]
    schema = None
    if rng.random() < 0.55:
        schema = []
        for _ in DOMAIN:
            if rng.random() < 0.3:
                schema.append(['raise', rng.randrange(len(EXCS))])
            else:
                schema.append(['ret', rng.randrange(len(SCHEMA_OUT))])
    return allowed, check, schema


def gen(ctx):
    rng = ctx.rng('gen')
    n = 1800 if ctx.tier == 'quick' else 300000
    for _ in range(n):
        allowed, check, schema = gen_validators(rng)
        probe = Validators({'allowed': allowed, 'check': check, 'schema': schema}, [])
        good = [i for i, v in enumerate(DOMAIN) if probe.ref(v)[0]]
        pick = lambda: (rng.choice(good) if good and rng.random() < 0.9
                        else rng.randrange(len(DOMAIN)))
        case = {'kind': rng.choice(['Input', 'Input', 'InputExp']),
                'allowed': allowed, 'check': check, 'schema': schema,
                'aslist': rng.random() < 0.5,
                'puts': [rng.randrange(len(DOMAIN)) for _ in range(rng.randrange(1, 7))],
                'initdef': pick(),
                'expired': pick(),
                'stored': rng.randrange(len(DOMAIN)) if rng.random() < 0.4 else None}
        bad = [i for i, v in enumerate(DOMAIN) if not probe.ref(v)[0]]
        if case['stored'] is not None and rng.random() < 0.4:
            case['nosync'] = True
        if case['stored'] is not None and case['kind'] == 'Input' and rng.random() < 0.3:
            # a block created earlier sends a put while IT is being restored, i.e. before the
            # simulator's first initialisation pass has reached this Input
            case['early_put'] = rng.randrange(len(DOMAIN))
        r = rng.random()
        if r < 0.06:
            # the delivery of the block's own output event fails with a ValueError during put #k
            case['listener_fault'] = rng.randrange(len(case['puts']))
        elif r < 0.12:
            # a put that arrives during the clean-up (stop_data of an output block -> on_success):
            # before or after the destination's own stop(), it is validated like any other
            case['cleanup_put'] = rng.randrange(len(DOMAIN))
        elif r < 0.26 and case['kind'] == 'Input' and good:
            # persistent, nothing stored, no initdef: the block gets its first value from events
            # sent by another block during the initialisation; rejected puts come first
            case['uninit'] = [rng.choice(bad) for _ in range(rng.randrange(0, 3)) if bad] \
                + [rng.choice(good)]
            case['stored'] = None
        yield case


def split_cases(cases, ctx):
    """Constructor checks first (own circuits); return the cases that get a block."""
    import edzed
    runnable = []
    for case in cases:
        val = Validators(case, [])
        init_ok, _ = val.ref(DOMAIN[case['initdef']])
        exp_ok, _ = val.ref(DOMAIN[case['expired']])
        bad = not init_ok or (case['kind'] == 'InputExp' and not exp_ok)
        if not bad:
            runnable.append(case)
            continue
        edzed.reset_circuit()
        kw = val.kwargs(case['aslist'])
        try:
            if case['kind'] == 'Input':
                edzed.Input('x', initdef=DOMAIN[case['initdef']], **kw)
            else:
                edzed.InputExp('x', duration=10 ** 6, initdef=DOMAIN[case['initdef']],
                               expired=DOMAIN[case['expired']], **kw)
        except Exception:
            ctx.count('ctor_refusals')
        else:
            what = 'initdef' if not init_ok else 'expired'
            ctx.violation(case, f"invalid-{what}-accepted-{case['kind']}",
                          f"{case['kind']} accepted an invalid {what} "
                          f"(initdef={DOMAIN[case['initdef']]!r}, expired={DOMAIN[case['expired']]!r})")
        ctx.case_done(case, True)
        # the same validators with a valid initdef still get a block if one exists
    edzed.reset_circuit()
    return runnable


def run_batch(batch, ctx):
    import edzed
    storage = harness.Storage()
    dict.__setitem__(storage, 'edzed-stop-time', 0.0)
    vals = []
    done = [False] * len(batch)
    finals = {}
    state = {'aborted': None}

    class Feeder(edzed.SBlock):
        """Initialises another block by events while the circuit is being initialised."""
        def init_regular(self):
            for value in self.x_values:
                try:
                    self.x_results.append(self.x_dest.event('put', value=value, source=self.name))
                except Exception as err:    # pylint: disable=broad-except
                    self.x_results.append(err)
            self.set_output(len(self.x_values))

    class EarlyFeeder(edzed.AddonPersistence, edzed.SBlock):
        """Restored from saved state; sends a put to a block created later while being restored."""
        def _restore_state(self, state):
            self.set_output(state)
            try:
                self.x_results.append(self.circuit.findblock(self.x_dest).event(
                    'put', value=self.x_value, source=self.name))
            except Exception as err:    # pylint: disable=broad-except
                self.x_results.append(err)

        def init_regular(self):
            if not self.is_initialized():
                self.set_output(0)

        def get_state(self):
            return self.output

    def build():
        blocks = []
        edzed.Input('sink', initdef=None)
        for i, case in enumerate(batch):
            log = []
            val = Validators(case, log)
            val.feed_results = []
            vals.append(val)
            kw = val.kwargs(case['aslist'])
            persistent = case['stored'] is not None and case['kind'] == 'Input'
            if persistent:
                dict.__setitem__(storage, f"<Input 'b{i}'>", DOMAIN[case['stored']])
            persistent_exp = case['stored'] is not None and case['kind'] == 'InputExp'
            if persistent_exp:
                # saved state of an InputExp: 'valid' state, timer due in a long time, the value
                import time as _time
                dict.__setitem__(storage, f"<InputExp 'b{i}'>",
                                 ['valid', _time.time() + 10 ** 5, {'input': DOMAIN[case['stored']]}])
            if persistent and case.get('early_put') is not None:
                val.early_results = []
                EarlyFeeder(f"ef{i}", persistent=True, x_dest=f"b{i}",
                            x_value=DOMAIN[case['early_put']], x_results=val.early_results)
                dict.__setitem__(storage, f"<EarlyFeeder 'ef{i}'>", 1)
            if case.get('listener_fault') is not None:
                def listener(data, val=val):
                    if val.fault_now:
                        val.fault_fired = True
                        raise ValueError("vf: the listener cannot handle this value")
                    return True
                val.fault_now = val.fault_fired = False
                kw['on_every_output'] = edzed.Event('sink', 'put', efilter=listener)
            try:
                if case.get('uninit'):
                    blk = edzed.Input(f"b{i}", persistent=True, **kw)
                    Feeder(f"feed{i}", x_dest=blk, x_values=[DOMAIN[j] for j in case['uninit']],
                           x_results=val.feed_results)
                elif case['kind'] == 'Input':
                    if persistent and case.get('nosync'):
                        kw['sync_state'] = False    # saved at the stop only
                        ctx.count('persistent_without_sync_state')
                    blk = edzed.Input(f"b{i}", initdef=DOMAIN[case['initdef']],
                                      persistent=persistent, **kw)
                else:
                    blk = edzed.InputExp(f"b{i}", duration=10 ** 6, initdef=DOMAIN[case['initdef']],
                                         expired=DOMAIN[case['expired']],
                                         persistent=persistent_exp, **kw)
            except Exception as err:    # pylint: disable=broad-except
                # initdef/expired are valid according to the reference
                ctx.violation(case, f"valid-initdef-refused-{case['kind']}",
                              f"{case['kind']} refused a valid initdef/expired "
                              f"(initdef={DOMAIN[case['initdef']]!r}, expired="
                              f"{DOMAIN[case['expired']]!r}): {err!r}")
                blk = None
            blocks.append(blk)
            if blk is not None and case.get('cleanup_put') is not None:
                edzed.OutputFunc(f"of{i}", func=lambda v: v, on_error=None,
                                 stop_data={'value': DOMAIN[case['cleanup_put']]},
                                 on_success=edzed.Event(blk, 'put'))
            coll = getattr(val, 'given_collection', None)
            if blk is not None and isinstance(coll, (list, set)):
                # the application goes on using its collection after the block was created
                ctx.count('allowed_collection_mutated')
                if isinstance(coll, list):
                    coll.clear()
                    coll.extend(HASHABLE)
                else:
                    coll.clear()
                    coll.update(HASHABLE)
        return blocks

    async def drive(sim, blocks):
        for i, (case, blk) in enumerate(zip(batch, blocks)):
            if blk is None:
                done[i] = True
                continue
            try:
                finals[i] = check_one(case, blk, vals[i], sim, ctx)
            except core.Violation as v:
                ctx.violation(case, v.key, v.msg)
            done[i] = True
            if not sim.alive():
                state['aborted'] = (i, repr(sim.circuit.error))
                return
        return True

    out = harness.run_sim(build, drive, storage=storage)
    if out['exc'] is not None and not isinstance(out['exc'], vloop.Deadlock):
        raise out['exc']
    if not out.get('started'):
        # a start-up failure: find out which block is not initialised (restore mishandled?)
        ctx.violation(batch[0], 'startup-failed',
                      f"circuit with valid initdefs did not start: {out['sim'].init_exc}")
        for case in batch:
            ctx.case_done(case, False)
        return
    if state['aborted'] is None:
        # puts delivered during the clean-up
        for i, case in enumerate(batch):
            if case.get('cleanup_put') is None or finals.get(i) is None or out['objs'][i] is None:
                continue
            value = DOMAIN[case['cleanup_put']]
            ok, newval = vals[i].ref(value)
            want = upd(finals[i][0], newval) if ok else finals[i][0]
            ctx.count('cleanup_puts_checked')
            got = out['objs'][i].output
            if not eq(got, want):
                ctx.violation(
                    case, f"cleanup-put-{'accepted' if ok else 'rejected'}-wrong-output",
                    f"{case['kind']}: put({value!r}) sent by an output block's stop_data result "
                    f"during the clean-up (reference: {'accepted' if ok else 'rejected'}): final "
                    f"output {got!r}, expected {want!r}")
    for i, case in enumerate(batch):
        if done[i]:
            ctx.case_done(case, True, sample={
                'kind': case['kind'],
                'allowed': None if case['allowed'] is None else [repr(DOMAIN[j]) for j in case['allowed']],
                'check': case['check'], 'schema': case['schema'],
                'puts': [repr(DOMAIN[j]) for j in case['puts']]})
    if state['aborted'] is not None:
        i, err = state['aborted']
        rest = batch[i + 1:]
        if rest:
            run_batch(rest, ctx)


def eq(a, b):
    return type(a) is type(b) and a == b


_NOTHING = object()


def upd(cur, out):
    """
    The output after an accepted value: SBlock.set_output() keeps the present output object when
    the new value compares equal to it (no change, no event), so 1 stays 1 after put(True).
    """
    if cur is not _NOTHING and cur == out:
        return cur
    return out


def check_one(case, blk, val, sim, ctx):
    import edzed
    kind = case['kind']
    # initial value
    _, cur = val.ref(DOMAIN[case['initdef']])
    if case.get('uninit'):
        ctx.count('initialised_by_events')
        for j, res in zip(case['uninit'], val.feed_results):
            ok, out = val.ref(DOMAIN[j])
            if not ok:
                ctx.count('rejected_put_into_uninitialised_block')
            if res is not ok:
                raise core.Violation(
                    f"{'accepted' if ok else 'rejected'}-put-returned-{res!r}"[:60]
                    if isinstance(res, bool) else 'put-into-uninitialised-block-raised',
                    f"Input (persistent, still uninitialised): put({DOMAIN[j]!r}) during the "
                    f"initialisation gave {res!r}, expected {ok!r}")
            if ok:
                cur = out
        if len(val.feed_results) != len(case['uninit']):
            raise core.Inconclusive("C17: the feeder block did not run")
    if case['stored'] is not None and kind == 'InputExp':
        # the saved value part passes through the same validation; a rejected one is not restored
        ctx.count('inputexp_restores_checked')
        ok, out = val.ref(DOMAIN[case['stored']])
        if ok:
            cur = out
        else:
            ctx.count('inputexp_invalid_saved_value')
    if case['stored'] is not None and kind == 'Input':
        ctx.count('restores_checked')
        ok, out = val.ref(DOMAIN[case['stored']])
        if ok:
            cur = out
        if case.get('early_put') is not None:
            # the early put found the block restored already (an event makes the pending
            # initialisation steps run first) and was validated like any other put
            ctx.count('puts_before_the_first_init_pass')
            ok2, out2 = val.ref(DOMAIN[case['early_put']])
            if ok2:
                cur = upd(cur, out2)
            if val.early_results != [ok2]:
                raise core.Violation(
                    f"{'accepted' if ok2 else 'rejected'}-put-returned-{val.early_results!r}"[:70],
                    f"Input: put({DOMAIN[case['early_put']]!r}) sent by another block while that "
                    f"block was being restored: results {val.early_results!r}, expected [{ok2}]")
    if not eq(blk.output, cur):
        src = 'restored/initial'
        raise core.Violation(
            f'initial-output-{kind}',
            f"{kind}: {src} output {blk.output!r}, reference {cur!r} "
            f"(initdef={DOMAIN[case['initdef']]!r}, stored="
            f"{'-' if case['stored'] is None else repr(DOMAIN[case['stored']])})")
    stv = cur
    for k, idx in enumerate(case['puts']):
        value = DOMAIN[idx]
        ok, out = val.ref(value)
        del val.log[:]
        unhashable = isinstance(value, list)
        if unhashable:
            ctx.count('unhashable_puts')
        if case.get('listener_fault') == k:
            val.fault_now = True
        try:
            ret = edzed.ExtEvent(blk, 'put').send(value)
        except Exception as err:
            if getattr(val, 'fault_fired', False):
                # the fault of the listener is reported (and fatal), not mistaken for a rejection
                ctx.count('listener_faults_reported')
                return
            tag = 'unhashable-with-allowed' if unhashable and val.allowed is not None else 'other'
            if not sim.alive():
                raise core.Violation(
                    f'put-aborted-simulation-{tag}',
                    f"{kind}: put({value!r}) raised {err!r} and stopped the simulation "
                    f"(expected {'acceptance' if ok else 'a False return'})")
            raise core.Violation(
                f'put-raised-{tag}', f"{kind}: put({value!r}) raised {err!r}")
        finally:
            val.fault_now = False
        ctx.count('puts_compared')
        if any(e[0] == 'schema' for e in val.log) and val.schema_tab[idx][0] == 'raise':
            ctx.count('schema_raised')
        for what, arg in val.log:
            if what == 'check' and not (arg is value or eq(arg, value)):
                raise core.Violation(
                    'check-got-modified-value',
                    f"{kind}: check() was called with {arg!r} instead of the original {value!r}")
        if ok:
            ctx.count('acceptances_seen')
            if cur == out and not eq(cur, out):
                ctx.count('accepted_equal_value_of_another_type')
            cur = upd(cur, out)
            stv = out
            if ret is not True:
                raise core.Violation(
                    f'accepted-put-returned-{ret!r}',
                    f"{kind}: put({value!r}) should be accepted but returned {ret!r}")
        else:
            ctx.count('rejections_seen')
            if ret is not False:
                raise core.Violation(
                    f'rejected-put-returned-{ret!r}',
                    f"{kind}: put({value!r}) must be rejected but returned {ret!r}")
        if not eq(blk.output, cur):
            raise core.Violation(
                f"output-after-{'accepted' if ok else 'rejected'}-put-{kind}",
                f"{kind}: after put({value!r}) ({'accepted' if ok else 'rejected'}) output is "
                f"{blk.output!r}, reference {cur!r}; puts so far "
                f"{[DOMAIN[j] for j in case['puts'][:k + 1]]}")
        if kind == 'Input':
            if not eq(blk.get_state(), cur):
                raise core.Violation('state-differs', f"Input state {blk.get_state()!r} != {cur!r}")
        else:
            st = blk.get_state()
            if st[0] != 'valid' or not eq(st[2].get('input'), stv):
                raise core.Violation('state-differs', f"InputExp state {st!r}, value {stv!r}")
    return (cur,)


def run_cases(cases, ctx, bsize=60):
    batch = []
    for case in cases:
        batch.append(case)
        if len(batch) >= bsize:
            run_batch(split_cases(batch, ctx), ctx)
            batch = []
    if batch:
        run_batch(split_cases(batch, ctx), ctx)


def run_rearm(case, ctx):
    """
    An InputExp with validators whose own entry action of the 'expired' state re-arms the input
    with a new 'put' (a chained transition, documented): that put is validated like any other.
    """
    import asyncio
    import edzed
    rearm, vkind = case['rearm'], case['validator']
    seen = {}
    holder = []

    def valid(v):
        return v in (1, 2, 3, 'EXP', '7', 7)

    def build():
        kw = {}
        if vkind == 'allowed':
            kw['allowed'] = [1, 2, 3, 'EXP']
        elif vkind == 'check':
            kw['check'] = lambda v: v in (1, 2, 3, 'EXP')
        else:
            def schema(v):
                if v == 'EXP':
                    return v
                if int(v) > 50:
                    raise ValueError('vf: too big')
                return int(v)
            kw['schema'] = schema

        def enter_expired():
            if not seen.get('done'):
                seen['done'] = True
                seen['ret'] = holder[0].event('put', value=rearm)
        blk = edzed.InputExp('ie', duration=1.0, expired='EXP', initdef=1,
                             enter_expired=enter_expired, **kw)
        holder.append(blk)
        return blk

    async def drive(sim, blk):
        await asyncio.sleep(1.5)        # the initial value has expired, the action has run
        seen['state'] = blk.state
        seen['out'] = blk.output
        seen['ext_ret'] = edzed.ExtEvent(blk).send(3)
        seen['out2'] = blk.output
        return sim.alive()
    out = harness.run_sim(build, drive)
    where = f"re-arming InputExp {case}"
    if out['exc'] is not None or not out['started'] or out['result'] is not True:
        raise core.Violation('harness-run-exception',
                             f"{where}: {out['exc']!r} {out['sim'].circuit.error!r}")
    ok = rearm in (2, '2') if vkind != 'schema' else rearm in (2, '7')
    exp_out = (rearm if vkind != 'schema' else int(rearm)) if ok else 'EXP'
    ctx.count('puts_compared')
    ctx.count('acceptances_seen' if ok else 'rejections_seen')
    if seen.get('ret') is not ok:
        raise core.Violation(
            f"{'accepted' if ok else 'rejected'}-put-returned-{seen.get('ret')!r}",
            f"{where}: put({rearm!r}) requested by enter_expired returned {seen.get('ret')!r}, "
            f"expected {ok}")
    if seen['state'] != ('valid' if ok else 'expired') or seen['out'] != exp_out \
            or type(seen['out']) is not type(exp_out):
        raise core.Violation(
            f"output-after-{'accepted' if ok else 'rejected'}-put-InputExp",
            f"{where}: after the chained put({rearm!r}) ({'valid' if ok else 'invalid'}) the "
            f"block is {seen['state']!r} with output {seen['out']!r}, expected {exp_out!r}")
    if seen['ext_ret'] is not True or seen['out2'] != 3:
        raise core.Violation('output-after-accepted-put-InputExp',
                             f"{where}: later put(3) returned {seen['ext_ret']!r}, output {seen['out2']!r}")


def run_shard(ctx):
    run_cases(gen(ctx), ctx)
    idx = 0
    for vkind in ('allowed', 'check', 'schema'):
        for rearm in (2, 99, '7', 'zz' if vkind == 'schema' else 0):
            idx += 1
            if idx % ctx.nshards != ctx.shard:
                continue
            case = {'rearm_case': True, 'validator': vkind, 'rearm': rearm}
            try:
                run_rearm(case, ctx)
            except core.Violation as v:
                ctx.violation(case, v.key, v.msg)
            ctx.case_done(case, True)


def replay(rep, ctx):
    if rep['case'].get('rearm_case'):
        try:
            run_rearm(rep['case'], ctx)
        except core.Violation as v:
            ctx.violation(rep['case'], v.key, v.msg)
        ctx.case_done(rep['case'], True)
        return
    run_cases([rep['case']], ctx)
