"""
C06 - saved state always matches the last completed event and survives a restart.

Crash-point enumeration over a recorded storage history.
Life 1: a circuit of persistent blocks (Input sync/no-sync, Counter, generic timed FSM with
sdata, Timer, InputExp, TimeDate, TimeSpan, a block whose handler can fail) runs a generated
history on the virtual loop / virtual wall clock with a recording storage that behaves like a
serialising back-end; after init, after every step and after the regular stop the storage is
compared with get_state() of every block and a deep snapshot (= crash point) is taken.
Life 2, for every crash point x downtime: a new loop with another virtual origin, the wall clock
advanced by the downtime, the same block definitions and a copy of the snapshot as storage;
the restored states, outputs, absolute timer expiries and the (non-)execution of entry actions
are compared with the documented rules.
"""

import asyncio
import copy
import datetime as _dt

from .. import core, harness, vclock, vloop

PROP = 'C06'
TECHNIQUE = ('runtime monitoring with crash-point enumeration: recording storage compared with get_state() after every step; every snapshot restarted after several downtimes on a new virtual loop and wall clock')
LEVEL = 'fault_enumeration'
RULE = ("case = (history of <=8 steps over {put/inc/FSM events with and without 'duration', Timer "
        "start/stop, InputExp put, TimeDate/TimeSpan reconfig, virtual sleeps that let timers "
        "fire, a failing handler, a failing start()} x per-block settings (sync_state on/off, "
        "expiration None/<=0/shorter/longer than the downtime), previous stop timestamp "
        "present/missing); every crash point (after init, after each step, after the regular "
        "stop, after a failed start-up) x downtime in {0.5 s, longer than the remaining timers, "
        "longer than the short expiration} is restarted; non-trivial = at least one block was "
        "restored from a snapshot taken after an event and compared")
ASSUMPTIONS = [
    "the storage deep-copies on write and on read like shelve does; 'holds exactly the current "
    "state' is decided by == on deep copies (timer expiries within 1 ms)",
    "expiration is measured from the stored 'edzed-stop-time' and unchecked when there is none "
    "(documented); a crash leaves the stop timestamp of the previous regular stop in place",
    "downtimes are chosen so that no timer expiry and no TimeDate/TimeSpan boundary lies within "
    "0.2 s of the restart instant",
    "TimeDate/TimeSpan: the saved state is the configuration; the output after a restart is the "
    "configuration evaluated at the new wall-clock time",
    "after a failed initialisation edzed does save (not judged); 'nothing is written if start-up "
    "failed' is checked for a failing start()",
    "every read of the virtual wall clock costs 2 us of virtual time (a clock that stands still "
    "while code runs makes the cron service spin: with sleeptime == overhead it waits with a "
    "zero timeout until the clock moves - harmless with a real clock)",
]
REQUIRED = {'wall_clock_steps': 50, 'saved_expiry_vs_loop_timer': 1000,
            'sync_points_checked': 1000, 'crash_points': 500, 'restarts': 1000,
            'fsm_states_restored': 200, 'timer_expiry_preserved': 100,
            'expired_during_downtime': 100, 'expiration_discarded': 50, 'nosync_unchanged': 200,
            'handler_failure_not_saved': 20, 'failed_start_nothing_written': 10,
            'regular_stop_checked': 100, 'unused_keys_removed': 500, 'timedate_restored': 100,
            'runs_without_persistent_blocks': 50}
SHARDS = {'quick': 16, 'thorough': 16}
TIMEOUT = {'quick': 600, 'thorough': 3600}

BASE1 = _dt.datetime(2023, 5, 17, 9, 0, 0)      # UTC; local = UTC + 2h (vclock.LOCAL_OFFSET)
EPOCH = _dt.datetime(1970, 1, 1)
SHORT_EXP = 30.0
LONG_EXP = 100000.0


class Boom(Exception):
    pass


def build_blocks(edzed, cfg, hist, fail_start=False):
    """Same block definitions for every life."""
    class Sink(edzed.SBlock):
        def init_regular(self):
            self.set_output(0)

        def _event(self, etype, data):
            hist.log('sev', data.get('source'), etype, data.get('state'))
    sink = Sink('sink')

    class PFsm(edzed.FSM):
        STATES = ['A', 'B']
        TIMERS = {'T1': (5.0, 'tout'), 'T2': (None, edzed.Goto('A'))}
        EVENTS = [('go', None, 'T1'), ('go2', None, 'T2'), ('tout', 'T1', 'B'), ('back', None, 'A'),
                  ('note', None, 'A')]

        def cond_note(self):
            # changes only the additional state data; the event itself is rejected, the FSM
            # state and its timer stay as they are
            self.sdata['notes'] = self.sdata.get('notes', 0) + 1
            return False

        def enter_T1(self):
            self.sdata['n'] = self.sdata.get('n', 0) + 1
            hist.log('cb', self.name, 'enter', 'T1')

        def enter_T2(self):
            self.sdata['m'] = self.sdata.get('m', 0) + 1
            hist.log('cb', self.name, 'enter', 'T2')

        def enter_A(self):
            hist.log('cb', self.name, 'enter', 'A')

        def enter_B(self):
            hist.log('cb', self.name, 'enter', 'B')

    class Fragile(edzed.AddonPersistence, edzed.SBlock):
        def init_regular(self):
            if not self.is_initialized():
                self.set_output('init')

        def _restore_state(self, state):
            self.set_output(state)

        def _event_set(self, *, value, **_data):
            self.set_output(value)

        def _event_boom(self, *, value, **_data):
            self.set_output(value)      # the state is changed, then the handler fails
            raise Boom('handler failure')

        def start(self):
            super().start()
            if fail_start is True:
                raise Boom('start failure')

    def exp(name):
        e = cfg['expiration'].get(name)
        return {} if e is None else {'expiration': e}

    def sev(blk_states):
        kw = {}
        for st in blk_states:
            kw[f"on_enter_{st}"] = edzed.Event(sink, 'enter')
            kw[f"on_exit_{st}"] = edzed.Event(sink, 'exit')
        return kw
    blocks = {}
    if cfg.get('of_first'):
        # created (= started) before every other block: when a later start() fails, this block
        # is stopped and its stop_data result goes to 'fin', which was never started
        blocks['of'] = edzed.OutputFunc('of', func=lambda v: v, stop_data={'value': 'final'},
                                        on_success=edzed.Event('fin', 'put'), on_error=None)
    # every output change of 'inp' (incl. the one made by restoring its saved state, when the
    # blocks created later have not been restored yet) addresses a conditional event to the other
    # persistent blocks that always resolves to 'no event'
    noevents = [edzed.Event(n, edzed.EventCond(None, 'vf_never_sent'),
                            efilter=lambda d: {**d, 'value': 1})
                for n in ('inp_ns', 'cnt', 'fsm', 'tmr', 'iexp', 'frg')] if cfg.get('noevents') else None
    blocks['inp'] = edzed.Input('inp', initdef='i0', persistent=True, allowed=None,
                                on_output=noevents, **exp('inp'))
    blocks['inp_ns'] = edzed.Input('inp_ns', initdef='n0', persistent=True, sync_state=False,
                                   **exp('inp_ns'))
    blocks['cnt'] = edzed.Counter('cnt', modulo=7, initdef=1, persistent=True, **exp('cnt'))
    blocks['fsm'] = PFsm('fsm', persistent=True, t_T2=cfg.get('t_T2', 3.0),
                         **sev(['A', 'B', 'T1', 'T2']), **exp('fsm'))
    blocks['tmr'] = edzed.Timer('tmr', t_on=4.0, persistent=True, **sev(['on', 'off']), **exp('tmr'))
    blocks['iexp'] = edzed.InputExp('iexp', duration=6.0, expired='EXP', persistent=True,
                                    **sev(['valid', 'expired']), **exp('iexp'))
    blocks['td'] = edzed.TimeDate('td', times=cfg['td_times'], persistent=True, **exp('td'))
    blocks['ts'] = edzed.TimeSpan('ts', span=cfg['ts_span'], persistent=True, **exp('ts'))
    blocks['frg'] = Fragile('frg', persistent=True)
    # the same without saving after each event (sync_state off): saved at the stop only
    blocks['frg_ns'] = Fragile('frg_ns', persistent=True, sync_state=False)
    blocks['plain'] = edzed.Input('plain', initdef=0)       # not persistent
    # an event handled during the clean-up (stop_data of an output block) by a persistent block
    blocks['fin'] = edzed.Input('fin', initdef='running', persistent=True)
    if not cfg.get('of_first'):
        blocks['of'] = edzed.OutputFunc('of', func=lambda v: v, stop_data={'value': 'final'},
                                        on_success=edzed.Event('fin', 'put'), on_error=None)
    if fail_start == 'first_step':
        # fails in the window between the start() calls and the initialisation:
        # the main task raises in its very first step
        class Crasher(edzed.AddonMainTask, edzed.SBlock):
            def init_regular(self):
                self.set_output(0)

            async def _maintask(self):
                raise Boom('main task fails at once')
        blocks['crasher'] = Crasher('crasher')
    return blocks


def deep_eq(a, b):
    """== on nested data; floats (timer expiries) within 1 ms."""
    if isinstance(a, float) and isinstance(b, float):
        return abs(a - b) <= 1e-3
    if isinstance(a, (list, tuple)) and isinstance(b, (list, tuple)):
        return len(a) == len(b) and all(deep_eq(x, y) for x, y in zip(a, b))
    if isinstance(a, dict) and isinstance(b, dict):
        return a.keys() == b.keys() and all(deep_eq(a[k], b[k]) for k in a)
    return a == b


PERSISTENT = ['inp', 'inp_ns', 'cnt', 'fsm', 'tmr', 'iexp', 'td', 'ts', 'frg']


def life1(case, ctx):
    """Run the history; return (points, info).  points = list of crash points."""
    import edzed
    cfg = case['cfg']
    hist = core.History()
    points = []
    info = {'violations': []}
    log = []
    storage = harness.Storage(log=log)
    holder = {}

    def wall():
        return holder['clock'].peek_time()

    stale = set()       # timed blocks not saved since the last step of the wall clock
    unser = set()       # blocks whose current state the (serialising) storage cannot store

    def wall_expiry(blk):
        """Absolute (wall clock) expiry of the block's pending timer, from the loop's handle."""
        loop = hist.loop
        own = [h for h in loop.edzed_timers() if h._callback.__self__ is blk]
        if not own:
            return None
        return wall() + (own[0].when() - loop.time())

    def check_sync(blocks, label, disabled):
        """Storage must hold exactly get_state() of every sync block."""
        snap = storage.snapshot()
        for name in PERSISTENT:
            blk = blocks[name]
            if name in disabled:
                continue
            if name in unser:
                # the write failed: the entry of the block is dropped rather than left behind
                # with a state the block is no longer in
                ctx.count('unstorable_state_points')
                if blk.key in snap:
                    info['violations'].append(
                        ('stale-state-kept-after-save-error',
                         f"{label}: the storage refused the state of {name}, its entry still "
                         f"holds {snap[blk.key]!r}"))
                continue
            try:
                cur = copy.deepcopy(blk.get_state())
            except Exception as err:    # pylint: disable=broad-except
                info['violations'].append(('get_state-failed', f"{label}: {name}: {err!r}"))
                continue
            if name == 'inp_ns':
                continue
            ctx.count('sync_points_checked')
            if blk.key not in snap:
                info['violations'].append(
                    ('state-not-saved', f"{label}: {blk.key} missing in the storage; state {cur!r}"))
            elif name in stale:
                # the wall clock was stepped and the block has not handled an event since:
                # the stored absolute expiry is legitimately the one computed before the step
                if snap[blk.key][0] != cur[0] or not deep_eq(snap[blk.key][2], cur[2]):
                    info['violations'].append(
                        ('saved-state-differs-from-current',
                         f"{label}: storage[{blk.key}] = {snap[blk.key]!r}, get_state() = {cur!r}"))
            elif not deep_eq(snap[blk.key], cur):
                info['violations'].append(
                    ('saved-state-differs-from-current',
                     f"{label}: storage[{blk.key}] = {snap[blk.key]!r}, get_state() = {cur!r}"))
            elif name in ('fsm', 'tmr', 'iexp') and (
                    snap[blk.key][0] != blk.state or not deep_eq(snap[blk.key][2], blk.sdata)):
                # not only get_state() but the live internal state itself
                info['violations'].append(
                    ('saved-state-differs-from-current',
                     f"{label}: storage[{blk.key}] = {snap[blk.key]!r}, the block is in state "
                     f"{blk.state!r} with sdata {blk.sdata!r}"))
            elif name in ('fsm', 'tmr', 'iexp'):
                # the saved expiry against the timer handle of the event loop (not against
                # the library's own conversion)
                want = wall_expiry(blk)
                ctx.count('saved_expiry_vs_loop_timer')
                if not deep_eq(snap[blk.key][1], want):
                    info['violations'].append(
                        ('saved-expiry-differs-from-running-timer',
                         f"{label}: storage[{blk.key}] = {snap[blk.key]!r}, the running timer "
                         f"expires at wall-clock time {want!r} (now {wall()!r})"))
        return snap

    def take_point(blocks, label, disabled, kind):
        snap = check_sync(blocks, label, disabled) if kind != 'failed_start' else storage.snapshot()
        states = {}
        for name in PERSISTENT:
            try:
                states[name] = (copy.deepcopy(blocks[name].get_state()),
                                copy.deepcopy(blocks[name].output))
            except Exception:   # pylint: disable=broad-except
                states[name] = None
        points.append({'label': label, 'kind': kind, 'snapshot': snap, 'wall': wall(),
                       'states': states, 'disabled': set(disabled)})
        ctx.count('crash_points')

    async def main(loop):
        hist.loop = loop
        edzed.reset_circuit()
        blocks = build_blocks(edzed, cfg, hist, fail_start=case.get('fail_start', False))
        circuit = edzed.get_circuit()
        storage_init = {'ghost-key-of-a-removed-block': {'x': 1}, 'edzed-custom': 'keep me'}
        if cfg.get('prev_stop_time'):
            storage_init['edzed-stop-time'] = wall() - 50.0
        for k, v in case.get('prefill', {}).items():
            storage_init[k] = v
        for k, v in storage_init.items():
            dict.__setitem__(storage, k, copy.deepcopy(v))
        info['storage_before'] = storage.snapshot()
        circuit.set_persistent_data(storage)
        simtask = asyncio.create_task(circuit.run_forever(), name='vf: simtask')
        try:
            await circuit.wait_init()
        except edzed.EdzedInvalidState:
            info['started'] = False
            try:
                await simtask
            except BaseException:   # pylint: disable=broad-except
                pass
            take_point(blocks, 'failed-start', set(), 'failed_start')
            return
        info['started'] = True
        disabled = set()
        inp_ns_saved = storage.snapshot().get(blocks['inp_ns'].key)
        take_point(blocks, 'after-init', disabled, 'init')
        for k, step in enumerate(case['steps']):
            op = step[0]
            label = f"after-step-{k}-{step}"
            try:
                if op == 'sleep':
                    await asyncio.sleep(step[1])
                elif op == 'walljump':
                    # the wall clock is stepped (NTP, date set); the loop clock is not
                    holder['clock'].jump += step[1]
                    stale.update(('fsm', 'tmr', 'iexp'))
                    ctx.count('wall_clock_steps')
                elif op == 'ev':
                    _op, name, etype, data = step
                    stale.discard(name)
                    unser.discard(name)
                    edzed.ExtEvent(blocks[name], etype).send(**data)
                elif op == 'bad_ev':
                    # a harmless, refused call: unknown event type or a missing argument; the
                    # block, its persistence and the simulation are not affected
                    ctx.count('harmless_refused_events')
                    try:
                        if step[2] == 'unknown':
                            edzed.ExtEvent(blocks[step[1]], 'vf_nosuch_event').send()
                        else:
                            edzed.ExtEvent(blocks[step[1]], 'put').send()
                    except (edzed.EdzedUnknownEvent, TypeError):
                        pass
                elif op == 'unser':
                    # the new state cannot be serialised by the storage back-end (here: cannot
                    # be copied); the save error is logged, the simulation goes on
                    unser.add('frg')
                    edzed.ExtEvent(blocks['frg'], 'set').send(x for x in ())
                elif op == 'boom':
                    target = step[1] if len(step) > 1 else 'frg'
                    info['boom_target'] = target
                    try:
                        edzed.ExtEvent(blocks[target], 'boom').send('corrupted')
                    except Boom:
                        pass
                    disabled.add(target)
            except edzed.EdzedInvalidState:
                break
            except Exception as err:    # pylint: disable=broad-except
                hist.log('step_exc', k, repr(err))
            await harness.settle(2)
            if circuit.is_ready():
                ns_now = storage.snapshot().get(blocks['inp_ns'].key)
                ctx.count('nosync_unchanged')
                if ns_now != inp_ns_saved:
                    info['violations'].append(
                        ('nosync-block-saved-between-init-and-stop',
                         f"{label}: storage of inp_ns changed {inp_ns_saved!r} -> {ns_now!r}"))
                take_point(blocks, label, disabled, 'step')
            else:
                # the simulation was aborted by the failing handler
                snap = storage.snapshot()
                key = blocks[info.get('boom_target', 'frg')].key
                before = points[-1]['snapshot'].get(key)
                ctx.count('handler_failure_not_saved')
                if snap.get(key) != before:
                    info['violations'].append(
                        ('state-saved-after-handler-failure',
                         f"{label}: storage[{key}] changed {before!r} -> {snap.get(key)!r}"))
                break
        aborted = not circuit.is_ready()
        boom_target = info.get('boom_target', 'frg')
        frg_before = storage.snapshot().get(blocks[boom_target].key)
        t_stop = wall()
        expiry_at_stop = {name: wall_expiry(blocks[name]) for name in ('fsm', 'tmr', 'iexp')}
        try:
            await circuit.shutdown()
        except BaseException:   # pylint: disable=broad-except
            pass
        snap = storage.snapshot()
        if boom_target in disabled and snap.get(blocks[boom_target].key) != frg_before:
            info['violations'].append(
                ('state-saved-after-handler-failure',
                 f"at stop: storage[{boom_target}] {frg_before!r} -> "
                 f"{snap.get(blocks[boom_target].key)!r}"))
        # regular stop: everything saved + timestamp
        ctx.count('regular_stop_checked')
        if info.get('started') and snap.get(blocks['fin'].key) != 'final':
            info['violations'].append(
                ('cleanup-event-not-saved',
                 f"'fin' handled put('final') during the clean-up (output {blocks['fin'].output!r}), "
                 f"storage holds {snap.get(blocks['fin'].key)!r}"))
        ts = snap.get('edzed-stop-time')
        if not isinstance(ts, float) or abs(ts - t_stop) > 1e-3:
            info['violations'].append(('stop-timestamp-wrong', f"edzed-stop-time {ts!r}, stop at {t_stop!r}"))
        for name in PERSISTENT:
            blk = blocks[name]
            if name in disabled or name in unser:
                continue
            if blk.key not in snap:
                info['violations'].append(('state-not-saved-at-stop', f"{blk.key}"))
        if not aborted:
            # states as they were right before the stop (outputs do not change during stop)
            states = {}
            for name in PERSISTENT:
                if name in unser:
                    states[name] = None
                    continue
                states[name] = (copy.deepcopy(snap.get(blocks[name].key)),
                                copy.deepcopy(blocks[name].output))
            pre = points[-1]
            for name, want in expiry_at_stop.items():
                got = snap.get(blocks[name].key)
                ctx.count('saved_expiry_vs_loop_timer')
                if not isinstance(got, (list, tuple)) or not deep_eq(got[1], want):
                    info['violations'].append(
                        ('saved-expiry-differs-from-running-timer',
                         f"at stop: storage[{name}] = {got!r}, the timer running before the stop "
                         f"expires at wall-clock time {want!r} (stop at {t_stop!r})"))
            for name in PERSISTENT:
                if name in disabled or name in unser:
                    continue
                if not deep_eq(snap.get(blocks[name].key), pre['states'][name][0]):
                    info['violations'].append(
                        ('saved-state-differs-from-current',
                         f"at stop: storage[{name}] = {snap.get(blocks[name].key)!r}, state before "
                         f"the stop {pre['states'][name][0]!r}"))
            points.append({'label': 'after-stop', 'kind': 'stop', 'snapshot': snap, 'wall': t_stop,
                           'states': pre['states'], 'disabled': set(disabled)})
            ctx.count('crash_points')
        info['final_snapshot'] = snap

    def setup(loop):
        holder['clock'] = vclock.install(vclock.VClock(loop, BASE1, read_cost=lambda: 2e-6))
    try:
        loop, _r, exc = vloop.run(main, start=1000.0, setup=setup)
    finally:
        vclock.uninstall()
    edzed.reset_circuit()
    info['exc'] = exc
    info['hist'] = hist
    return points, info


def td_expected(times, local_dt, conf=None):
    """TimeDate with times (ranges may wrap around midnight); an empty dates/weekdays set = never."""
    if times is None:
        return False
    if conf is not None and (conf.get('weekdays') == [] or conf.get('dates') == []):
        return False
    tod = (local_dt.hour, local_dt.minute, local_dt.second, local_dt.microsecond)
    for lo, hi in times:
        lo4 = tuple(lo) + (0,) * (4 - len(lo))
        hi4 = tuple(hi) + (0,) * (4 - len(hi))
        if lo4 < hi4:
            if lo4 <= tod < hi4:
                return True
        elif tod >= lo4 or tod < hi4:
            return True
    return False


def ts_expected(span, local_dt):
    for lo, hi in span:
        lo7 = tuple(lo) + (0,) * (7 - len(lo))
        hi7 = tuple(hi) + (0,) * (7 - len(hi))
        cur = (local_dt.year, local_dt.month, local_dt.day, local_dt.hour, local_dt.minute,
               local_dt.second, local_dt.microsecond)
        if lo7 <= cur < hi7:
            return True
    return False


def life2(case, point, downtime, ctx, origin):
    """Restart from a crash point after `downtime` seconds; return list of violations."""
    import edzed
    cfg = case['cfg']
    hist = core.History()
    viol = []
    snap = point['snapshot']
    wall2 = point['wall'] + downtime
    base2 = EPOCH + _dt.timedelta(seconds=wall2)
    holder = {}
    obs = {}

    async def main(loop):
        hist.loop = loop
        edzed.reset_circuit()
        blocks = build_blocks(edzed, cfg, hist)
        circuit = edzed.get_circuit()
        storage = harness.Storage(init=snap)
        dict.__setitem__(storage, 'another-ghost', 123)
        circuit.set_persistent_data(storage)
        if int(origin + downtime * 7) % 3 == 0:
            # debug messages on in a third of the restarts (records discarded): what is restored
            # and what is discarded does not depend on it
            circuit.set_debug(True, '*')
            circuit.debug = True
            ctx.count('restarts_with_debug_messages_on')
        simtask = asyncio.create_task(circuit.run_forever(), name='vf: simtask')
        try:
            await circuit.wait_init()
        except edzed.EdzedInvalidState as err:
            obs['start_failed'] = repr(circuit.error)
            return
        obs['after_init'] = {}
        for name in PERSISTENT:
            blk = blocks[name]
            obs['after_init'][name] = (copy.deepcopy(blk.get_state()), copy.deepcopy(blk.output))
        obs['storage_after_init'] = storage.snapshot()
        obs['init_actions'] = [e for e in hist.entries if e[2] in ('cb', 'sev')]
        n0 = len(hist.entries)
        # let the restored timers fire
        await asyncio.sleep(20.0)
        obs['later_actions'] = [(e[1],) + tuple(e[2:]) for e in hist.entries[n0:] if e[2] in ('cb', 'sev')]
        obs['t0'] = loop.t0
        await circuit.shutdown()

    def setup(loop):
        holder['clock'] = vclock.install(vclock.VClock(loop, base2, read_cost=lambda: 2e-6))
    try:
        loop, _r, exc = vloop.run(main, start=origin, setup=setup)
    finally:
        vclock.uninstall()
    edzed.reset_circuit()
    if exc is not None:
        return [('harness-run-exception', f"life 2: {exc!r}")]
    where = f"restart from '{point['label']}' after {downtime} s"
    if 'start_failed' in obs:
        return [('restart-failed', f"{where}: {obs['start_failed']}")]
    ctx.count('restarts')
    # keys
    ctx.count('unused_keys_removed')
    st = obs['storage_after_init']
    if 'another-ghost' in st or 'ghost-key-of-a-removed-block' in st:
        viol.append(('unused-key-kept', f"{where}: {sorted(k for k in st if 'ghost' in k)}"))
    if 'edzed-custom' in snap and st.get('edzed-custom') != snap['edzed-custom']:
        viol.append(('reserved-key-removed', f"{where}: edzed-custom -> {st.get('edzed-custom')!r}"))
    stop_ts = snap.get('edzed-stop-time')
    local2 = base2 + vclock.LOCAL_OFFSET
    defaults = {'inp': 'i0', 'inp_ns': 'n0', 'cnt': 1, 'frg': 'init'}
    names = {'fsm': "<PFsm 'fsm'>", 'tmr': "<Timer 'tmr'>", 'iexp': "<InputExp 'iexp'>",
             'inp': "<Input 'inp'>", 'inp_ns': "<Input 'inp_ns'>", 'cnt': "<Counter 'cnt'>",
             'td': "<TimeDate 'td'>", 'ts': "<TimeSpan 'ts'>", 'frg': "<Fragile 'frg'>"}
    for name in PERSISTENT:
        key = names[name]
        got_state, got_out = obs['after_init'][name]
        saved = snap.get(key)
        exp = cfg['expiration'].get(name)
        usable = key in snap
        if usable and exp is not None:
            if exp <= 0 or (isinstance(stop_ts, float) and stop_ts + exp < wall2):
                usable = False
                ctx.count('expiration_discarded')
        if name in ('fsm', 'tmr', 'iexp'):
            init_state = {'fsm': 'A', 'tmr': 'off', 'iexp': 'expired'}[name]
            timed_out = False
            if usable and saved[1] is not None and saved[1] - wall2 <= 0:
                usable = False
                timed_out = True
                ctx.count('expired_during_downtime')
            if usable:
                ctx.count('fsm_states_restored')
                if got_state[0] != saved[0] or got_state[2] != saved[2]:
                    viol.append(('fsm-state-not-restored',
                                 f"{where}: {name} saved {saved!r}, restored {got_state!r}"))
                    continue
                if (saved[1] is None) != (got_state[1] is None) or (
                        saved[1] is not None and abs(saved[1] - got_state[1]) > 2e-3):
                    viol.append(('timer-expiry-not-preserved',
                                 f"{where}: {name} saved expiry {saved[1]!r}, after restart {got_state[1]!r} "
                                 f"(wall now {wall2!r})"))
                    continue
                # no entry actions at restore
                acts = [a for a in obs['init_actions']
                        if (a[2] == 'cb' and a[3] == name) or (a[2] == 'sev' and a[3] == name and a[4] == 'enter')]
                if acts:
                    viol.append(('entry-actions-rerun-on-restore',
                                 f"{where}: {name} restored to {saved[0]!r} but {acts} ran"))
                    continue
                # the timed event at the same absolute time
                if saved[1] is not None and saved[1] - wall2 < 19.0:
                    due_vt = obs['t0'] + (saved[1] - wall2)
                    exits = [a for a in obs['later_actions']
                             if a[1] == 'sev' and a[2] == name and a[3] == 'exit' and a[4] == saved[0]]
                    if not exits or abs(exits[0][0] - due_vt) > 5e-3:
                        viol.append(('timer-expiry-not-preserved',
                                     f"{where}: {name} in {saved[0]!r}: timed event expected at loop time "
                                     f"{due_vt!r}, exit events {exits[:2]}"))
                        continue
                    ctx.count('timer_expiry_preserved')
                exp_out = {'fsm': saved[0], 'tmr': saved[0] == 'on',
                           'iexp': saved[2].get('input') if saved[0] == 'valid' else 'EXP'}[name]
                if got_out != exp_out:
                    viol.append(('restored-output-wrong',
                                 f"{where}: {name} output {got_out!r}, expected {exp_out!r}"))
            else:
                if got_state[0] != init_state:
                    viol.append(('invalid-state-kept',
                                 f"{where}: {name} saved {saved!r} (timed out: {timed_out}, expiration "
                                 f"{exp}, stop time {stop_ts!r}, now {wall2!r}) but state is {got_state[0]!r}"))
                elif name == 'fsm' and got_state[2].get('n', 0) != 0 and saved is not None and timed_out:
                    # sdata of a discarded state must not leak into the fresh one
                    viol.append(('discarded-state-leaked-sdata',
                                 f"{where}: fsm sdata {got_state[2]!r} after discarding {saved!r}"))
        elif name in ('inp', 'inp_ns', 'frg'):
            exp_val = saved if usable else defaults[name]
            if got_out != exp_val:
                viol.append(('value-not-restored' if usable else 'invalid-state-kept',
                             f"{where}: {name} saved {saved!r} usable={usable}, output {got_out!r}"))
        elif name == 'cnt':
            exp_val = saved % 7 if usable else defaults[name]
            if got_out != exp_val:
                viol.append(('value-not-restored' if usable else 'invalid-state-kept',
                             f"{where}: cnt saved {saved!r} usable={usable}, output {got_out!r}"))
        elif name == 'td':
            ctx.count('timedate_restored')
            conf = saved if usable else {'times': edzed.TimeDate.parse(cfg['td_times'], None, None)['times'],
                                         'dates': None, 'weekdays': None}
            if got_state != conf:
                viol.append(('config-not-restored', f"{where}: td saved {saved!r} usable={usable}, "
                             f"state {got_state!r}"))
            elif got_out != td_expected(conf['times'], local2, conf):
                viol.append(('restored-output-wrong',
                             f"{where}: td config {conf!r} at {local2} output {got_out!r}"))
        elif name == 'ts':
            conf = saved if usable else edzed.TimeSpan.parse(cfg['ts_span'])
            if got_state != conf:
                viol.append(('config-not-restored', f"{where}: ts saved {saved!r} usable={usable}, "
                             f"state {got_state!r}"))
            elif got_out != ts_expected(conf, local2):
                viol.append(('restored-output-wrong',
                             f"{where}: ts config {conf!r} at {local2} output {got_out!r}"))
    return viol


def life_without_persistent_blocks(case, ctx, snapshot):
    """
    A run in which no block is persistent (all of them were removed or switched off) but the
    storage of the previous runs is still attached: entries of blocks that no longer exist are
    removed at start, reserved ones are kept.
    """
    import edzed
    res = {}

    def build():
        return {'a': edzed.Input('a', initdef=0),
                'b': edzed.Counter('cnt', initdef=0, persistent=False),
                'n': edzed.Not('n').connect('a')}
    storage = harness.Storage(init=snapshot)

    async def drive(sim, objs):
        res['after_start'] = storage.snapshot()
        edzed.ExtEvent(objs['a']).send(1)
        await harness.settle(2)
    out = harness.run_sim(build, drive, storage=storage)
    if out['exc'] is not None or not out['started']:
        return [('restart-failed', f"circuit without persistent blocks: {out['exc']!r} "
                 f"{out['sim'].circuit.error!r}")]
    ctx.count('runs_without_persistent_blocks')
    viol = []
    left = [k for k in res['after_start'] if not k.startswith('edzed-')]
    if left:
        viol.append(('unused-key-kept',
                     f"no block is persistent, yet the entries {left} survived the start"))
    for k, v in snapshot.items():
        if k.startswith('edzed-') and k != 'edzed-stop-time' and res['after_start'].get(k) != v:
            viol.append(('reserved-key-removed', f"{k}: {v!r} -> {res['after_start'].get(k)!r}"))
    return viol


SMALL_KINDS = ['cnt', 'td', 'ts', 'inp_ns', 'inp', 'tmr', 'cnt2']


def small_first_start(sc, ctx):
    """
    The very first start (empty or almost empty storage) of a small circuit made of a subset of
    the persistent block kinds: right after the initialisation - before any event - the storage
    must hold the state of every persistent block; a restart from that snapshot with other
    defaults restores the values.
    """
    import edzed
    res = {}

    def build(life):
        objs = {}
        for kind in sc['kinds']:
            if kind in ('cnt', 'cnt2'):
                objs[kind] = edzed.Counter(kind, initdef=3 if life == 1 else 5, persistent=True)
            elif kind == 'td':
                objs[kind] = edzed.TimeDate(kind, times=TD_CHOICES[0] if life == 1 else None,
                                            persistent=True)
            elif kind == 'ts':
                objs[kind] = edzed.TimeSpan(kind, span=TS_CHOICES[0] if life == 1 else (),
                                            persistent=True)
            elif kind == 'inp_ns':
                objs[kind] = edzed.Input(kind, initdef='a' if life == 1 else 'b', persistent=True,
                                         sync_state=False)
            elif kind == 'inp':
                objs[kind] = edzed.Input(kind, initdef='a' if life == 1 else 'b', persistent=True)
            elif kind == 'tmr':
                objs[kind] = edzed.Timer(kind, t_on=40.0, persistent=True)
        objs['plain'] = edzed.Input('plain', initdef=0)
        return objs

    storage = harness.Storage(init=sc['prefill'])

    async def drive1(sim, objs):
        res['snap'] = storage.snapshot()
        res['states'] = {k: copy.deepcopy(b.get_state()) for k, b in objs.items() if k != 'plain'}
        res['keys'] = {k: b.key for k, b in objs.items() if k != 'plain'}
        res['sync'] = {k: b.sync_state for k, b in objs.items() if k != 'plain'}
        return True
    out = harness.run_sim(lambda: build(1), drive1, storage=storage)
    if out['exc'] is not None or not out['started']:
        return [('harness-run-exception', f"small circuit {sc}: {out['exc']!r} "
                 f"{out['sim'].circuit.error!r}")]
    ctx.count('first_starts_of_small_circuits')
    if not sc['prefill']:
        ctx.count('first_starts_with_empty_storage')
    viol = []
    for kind, state in res['states'].items():
        ctx.count('sync_points_checked')
        key = res['keys'][kind]
        if key not in res['snap']:
            viol.append(('state-not-saved', f"first start of {sc}: right after the initialisation "
                         f"{key} is missing in the storage {res['snap']!r}"))
        elif not deep_eq(res['snap'][key], state):
            viol.append(('saved-state-differs-from-current',
                         f"first start of {sc}: storage[{key}] = {res['snap'][key]!r}, "
                         f"get_state() = {state!r}"))
    if viol:
        return viol
    storage2 = harness.Storage(init=res['snap'])    # crash right after the initialisation

    async def drive2(sim, objs):
        res['out2'] = {k: b.output for k, b in objs.items()}
        return True
    out = harness.run_sim(lambda: build(2), drive2, storage=storage2)
    if out['exc'] is not None or not out['started']:
        return [('restart-failed', f"small circuit {sc}, life 2: {out['exc']!r}")]
    for kind in sc['kinds']:
        want = {'cnt': 3, 'cnt2': 3, 'inp': 'a', 'inp_ns': 'a'}.get(kind)
        if want is not None and res['out2'][kind] != want:
            viol.append(('value-not-restored', f"small circuit {sc}: {kind} came up with "
                         f"{res['out2'][kind]!r} instead of the saved {want!r}"))
    return viol


def run_case(case, ctx):
    if case.get('small'):
        for key, msg in small_first_start(case['small'], ctx):
            ctx.violation({'small': case['small']}, key, msg)
    points, info = life1(case, ctx)
    if info['exc'] is not None:
        ctx.violation(case, 'harness-run-exception', f"life 1: {info['exc']!r}")
        return True
    for key, msg in info['violations']:
        ctx.violation(case, key, f"{msg} | steps={case['steps']} cfg={case['cfg']}",
                      history=info['hist'].dump(60))
    if case.get('fail_start'):
        ctx.count('failed_start_nothing_written')
        before = {k: v for k, v in info['storage_before'].items() if not k.startswith('ghost')}
        after = points[-1]['snapshot'] if points else None
        if after != before:
            ctx.violation(case, 'storage-written-after-failed-start',
                          f"storage before {before!r}, after the failed start {after!r}")
        return True
    if info['violations']:
        return True
    rng = ctx.rng('life2', core.case_hash(case))
    nontrivial = False
    if points:
        for key, msg in life_without_persistent_blocks(case, ctx, points[-1]['snapshot']):
            ctx.violation({'case': case, 'point': points[-1]['label'], 'nopersist': True}, key, msg)
            return True
    for point in points:
        if point['kind'] == 'failed_start':
            continue
        # remaining timers
        rem = []
        for key, val in point['snapshot'].items():
            if isinstance(val, (list, tuple)) and len(val) == 3 and isinstance(val[1], float):
                rem.append(val[1] - point['wall'])
        downtimes = [0.5]
        if rem:
            downtimes.append(max(rem) + 1.0)
            if min(rem) > 0.9:
                downtimes.append(min(rem) - 0.4)
        downtimes.append(SHORT_EXP + 60.0)
        for dtm in downtimes:
            # keep clear of every expiry (0.2 s) - see ASSUMPTIONS
            if any(abs(r - dtm) < 0.2 for r in rem):
                dtm += 0.45
            origin = rng.choice([10.0, 5000.0, 123456.789])
            viol = life2(case, point, dtm, ctx, origin)
            for key, msg in viol:
                ctx.violation({'case': case, 'point': point['label'], 'downtime': dtm}, key,
                              f"{msg} | steps={case['steps']} cfg={case['cfg']}")
            if point['kind'] in ('step', 'stop'):
                nontrivial = True
            if viol:
                return True
    return nontrivial


TD_CHOICES = [[[[11, 0], [11, 30]]], [[[10, 0], [12, 0]], [[13, 0], [14, 0]]], [[[0, 0], [1, 0]]]]
TS_CHOICES = [[[[2023, 5, 17, 10, 0], [2023, 5, 17, 12, 0]]],
              [[[2023, 1, 1, 0, 0], [2023, 2, 1, 0, 0]]],
              [[[2023, 5, 17, 11, 0, 30], [2023, 5, 18, 11, 0, 30]]]]


def random_case(rng):
    expiration = {}
    for name in ('inp', 'inp_ns', 'cnt', 'fsm', 'tmr', 'iexp', 'td', 'ts'):
        r = rng.random()
        if r < 0.15:
            expiration[name] = SHORT_EXP
        elif r < 0.25:
            expiration[name] = LONG_EXP
        elif r < 0.3:
            expiration[name] = rng.choice([0, -1])
    cfg = {'expiration': expiration, 'prev_stop_time': rng.random() < 0.7,
           'td_times': rng.choice(TD_CHOICES), 'ts_span': rng.choice(TS_CHOICES),
           't_T2': rng.choice([3.0, 8.0]), 'of_first': rng.random() < 0.5,
           'noevents': rng.random() < 0.5}
    steps = []
    for _ in range(rng.randint(2, 8)):
        if rng.random() < 0.08:
            name = rng.choice(['inp', 'cnt', 'fsm', 'tmr', 'iexp'])
            steps.append(['bad_ev', name, 'noparam' if name in ('inp', 'cnt') and rng.random() < 0.5
                          else 'unknown'])
            continue
        if rng.random() < 0.07:
            steps.append(['walljump', rng.choice([-307.0, -5.0, 31.0, 3607.0])])
            continue
        r = rng.random()
        if r < 0.2:
            steps.append(['sleep', rng.choice([0.5, 1.5, 3.5, 4.5, 7.0])])
        elif r < 0.3:
            steps.append(['ev', 'inp', 'put', {'value': rng.choice(['a', 'b', 3, [1, 2], None])}])
        elif r < 0.37:
            steps.append(['ev', 'inp_ns', 'put', {'value': rng.choice(['x', 'y'])}])
        elif r < 0.47:
            steps.append(['ev', 'cnt', rng.choice(['inc', 'dec', 'put']), {'value': rng.choice([3, 12])}
                          if steps and rng.random() < 0.5 else {'value': 5}])
        elif r < 0.65:
            ev = rng.choice(['go', 'go', 'go2', 'back', 'tout', 'note', 'note'])
            data = {}
            if rng.random() < 0.3:
                data['duration'] = rng.choice([1.0, 9.0, '0m2s'])
            steps.append(['ev', 'fsm', ev, data])
        elif r < 0.75:
            data = {}
            if rng.random() < 0.3:
                data['duration'] = rng.choice([2.0, 12.0])
            steps.append(['ev', 'tmr', rng.choice(['start', 'stop', 'toggle']), data])
        elif r < 0.85:
            data = {'value': rng.choice(['v1', 'v2', 7])}
            if rng.random() < 0.3:
                data['duration'] = rng.choice([2.5, 15.0])
            steps.append(['ev', 'iexp', 'put', data])
        elif r < 0.9:
            # (a range wrapping around midnight; an EMPTY weekday / date list = never active,
            # unlike None = unrestricted: the restart must bring back exactly that)
            steps.append(['ev', 'td', 'reconfig', dict(
                {'times': rng.choice(TD_CHOICES + [[[[22, 0], [2, 0]]]])},
                **rng.choice([{}, {}, {'weekdays': []}, {'dates': []}]))])
        elif r < 0.95:
            steps.append(['ev', 'ts', 'reconfig', {'span': rng.choice(TS_CHOICES)}])
        else:
            steps.append(['ev', 'frg', 'set', {'value': rng.choice(['f1', 'f2'])}])
    # counter events other than put take 'amount', fix the data
    for st in steps:
        if st[0] == 'ev' and st[1] == 'cnt' and st[2] != 'put':
            st[3] = {'amount': st[3].get('value', 1)}
    case = {'cfg': cfg, 'steps': steps}
    r = rng.random()
    if rng.random() < 0.15:
        steps.insert(rng.randint(0, len(steps)), ['unser'])
        if rng.random() < 0.5:
            case['prefill'] = {"<Fragile 'frg'>": 'older'}
    if r < 0.12:
        steps.insert(rng.randint(1, len(steps)), ['boom', rng.choice(['frg', 'frg', 'frg_ns'])])
    elif r < 0.2:
        case['fail_start'] = rng.choice([True, 'first_step'])
        case['prefill'] = {"<Input 'inp'>": 'old', "<Counter 'cnt'>": 4}
    elif r < 0.33:
        case['prefill'] = {"<Input 'inp'>": 'old', "<Counter 'cnt'>": 40,
                           "<PFsm 'fsm'>": ['B', None, {'n': 3}]}
    return case


def gen(ctx):
    rng = ctx.rng('gen')
    n = 60 if ctx.tier == 'quick' else 4000
    for _ in range(n):
        case = random_case(rng)
        kinds = [k for k in SMALL_KINDS if rng.random() < 0.35] or [rng.choice(SMALL_KINDS)]
        case['small'] = {'kinds': kinds, 'prefill': rng.choice(
            [{}, {}, {'edzed-custom': 1}, {'ghost-key': 0}, {'edzed-stop-time': 5.0}])}
        yield case


def run_shard(ctx):
    for case in gen(ctx):
        nontrivial = run_case(case, ctx)
        ctx.case_done(case, nontrivial, {'case': case} if len(ctx.samples) < 2 else None)


def replay(rep, ctx):
    case = rep['case']
    if 'case' in case and 'point' in case:
        case = case['case']
    if set(case) == {'small'}:
        for key, msg in small_first_start(case['small'], ctx):
            ctx.violation({'small': case['small']}, key, msg)
        ctx.case_done(case, True)
        return
    run_case(case, ctx)
    ctx.case_done(case, True)
