"""
C18 - Repeat re-sends the latest event at the configured pace and count.

Virtual-time history + rule-based trace oracle.  Every Repeat block (explicit, implicit via
Event(..., repeat=), first and second of a chain) is judged on its own boundary: the events
that enter it (instance-level record-and-delegate wrapper of .event) and the events that it
delivers (the next block's entry / the destination probe).
"""

import asyncio
import itertools

from .. import core, harness, vloop

PROP = 'C18'
TECHNIQUE = ('runtime monitoring: virtual-time history at the boundary of every Repeat block (entering and delivered events) checked by trace rules (immediate forward, numbering, pace, count, no stale re-send, nothing after stop)')
LEVEL = 'exploration'
RULE = ("case = (structure: explicit Repeat / implicit Repeat created by Event(..., repeat=) on an "
        "Input's on_output / chain Repeat -> Repeat -> destination; count in {None,0,1,3}; interval "
        "notation; arrival pattern of <=4 events given as deltas relative to the previous arrival "
        "from a grid that contains exact ties with a repetition, +-0.5 ns (same loop iteration, "
        "either order) and +-1 us neighbours, simultaneous arrivals and gaps longer than the whole "
        "repetition train; event types matching / not matching; stop instant on the same grid; "
        "optional injected wake-up latency); quick: exhaustive for <=2 arrivals + seeded sample, "
        "thorough: exhaustive for <=3 arrivals + random 4-arrival patterns; non-trivial = at least "
        "one repetition (repeat>=1) or a restart of the numbering was observed and judged")
ASSUMPTIONS = [
    "the loop is the VirtualLoop: repetition k of an event that entered the Repeat block at t is "
    "due at t + k*interval (successive float additions, tolerance 1e-9 s; with injected latency L "
    "per wake-up: not earlier, and not later than k*L afterwards)",
    "an arrival within 1 ns of a due repetition is a tie: the repetition may or may not be sent, "
    "but if it is sent it must precede the delivery of the newer event (a repetition of the OLD "
    "event delivered after the newer event has been forwarded is stale -> violation)",
    "chain: the second Repeat names the first one as orig_source and numbers with its own "
    "counter; all other data items are kept",
    "events enter Repeat blocks through ExtEvent.send / Event.send only; EventType objects other "
    "than str are not generated (documented as not recommended)",
]
REQUIRED = {'repetitions_judged': 500, 'restarts_judged': 100, 'ties_timer_first': 5,
            'ties_event_first': 5, 'count_limit_reached': 50, 'other_type_ignored': 20,
            'implicit_cases': 20, 'chain_cases': 20, 'after_stop_checked': 200}
SHARDS = {'quick': 16, 'thorough': 16}
TIMEOUT = {'quick': 300, 'thorough': 3000}

NS = 5e-10
US = 1e-6
IV = 1.0
DELTAS = [0.0, 0.4, 1 - US, 1 - NS, 1.0, 1 + NS, 1 + US, 1.5, 2.0, 3 - NS, 3.0, 3 + NS, 4.2]
DELTAS_SMALL = [0.0, 0.4, 1 - NS, 1.0, 1 + NS, 2.0, 3.0, 4.2]
STOPS = [0.5, 1.0, 2.0 - NS, 2.0 + NS, 3.5, 6.0]
COUNTS = [None, 0, 1, 3]
IV_NOTATIONS = [1.0, '1s', 1, '0m1.0s']
EPS = 5e-9     # the loop fires handles up to its clock resolution (1 ns) early


def abs_time(t0, delta):
    """t0 + delta computed the way the loop computes the due times (successive additions)."""
    whole = int(delta + 1e-7) if abs(delta - round(delta)) < 1e-7 else int(delta)
    t = t0
    for _ in range(whole):
        t += IV
    return t + (delta - whole)


def DYN(name):
    """An equal but not identical (not interned) copy of a string, as read from a file."""
    return ''.join(list(name))


def run_case(case, ctx):
    import edzed
    hist = core.History()
    structure = case['structure']
    count = case['count']
    interval = IV_NOTATIONS[case.get('iv', 0)]
    repeats = []        # Repeat blocks in chain order
    state = {}

    def build():
        class Dst(edzed.SBlock):
            def init_regular(self):
                self.set_output(0)

            def _event(self, etype, data):
                outs = [r.output for r in repeats]
                hist.log('deliver', 'dst', etype, dict(data), outs)
                return None
        dst = Dst('dst')
        objs = {'dst': dst}
        if case.get('vp_first') and structure in ('explicit', 'byname', 'chain'):
            # another main-task block, created BEFORE the Repeat, delivers its first output
            # event at the very first step of its task - before the Repeat's own task has run
            edzed.ValuePoll('vp', func=lambda: 'polled', interval=10 ** 6,
                            on_output=edzed.Event('r1', DYN('put')))
            ctx.count('event_before_first_step_of_main_task')
        if structure == 'explicit':
            r = edzed.Repeat('r1', dest=dst, etype='put', interval=interval, count=count)
            repeats.append(r)
            objs['entry'] = r
        elif structure == 'byname':
            r = edzed.Repeat('r1', dest='dst', etype='put', interval=interval, count=count)
            repeats.append(r)
            objs['entry'] = r
        elif structure == 'chain':
            r2 = edzed.Repeat('r2', dest=dst, etype='put', interval=interval,
                              count=case.get('count2', count))
            r1 = edzed.Repeat('r1', dest=r2, etype='put', interval=interval, count=count)
            repeats.extend([r1, r2])
            objs['entry'] = r1
        elif structure == 'implicit':
            # (optionally) a filter that strips everything but the value: the implicit Repeat
            # then gets an event without the 'source' item
            flt = edzed.DataEdit.permit('value') if case.get('strip_source') else None
            src = edzed.Input('src', initdef=case.get('initdef', 'init'), on_output=edzed.Event(
                dst, 'put', repeat=interval, count=count, efilter=flt))
            objs['src'] = src
            autos = list(edzed.get_circuit().getblocks(edzed.Repeat))
            if len(autos) != 1:
                raise core.Inconclusive(f"expected one implicit Repeat, found {len(autos)}")
            repeats.extend(autos)
        elif structure == 'implicit_chain':
            r2 = edzed.Repeat('r2', dest=dst, etype='put', interval=interval,
                              count=case.get('count2', count))
            src = edzed.Input('src', initdef=case.get('initdef', 'init'), on_output=edzed.Event(
                r2, 'put', repeat=interval, count=count))
            objs['src'] = src
            autos = [b for b in edzed.get_circuit().getblocks(edzed.Repeat) if b is not r2]
            repeats.extend(autos + [r2])
        else:
            raise core.Inconclusive(f"unknown structure {structure}")
        if case.get('cleanup_event') and 'entry' in objs:
            # an event that reaches the Repeat during the clean-up, after the Repeat itself was
            # stopped (blocks with asynchronous clean-up are stopped first): the result of an
            # output block's stop_data.  Forwarded once, never repeated.
            edzed.OutputFunc('ofc', func=lambda v: v, stop_data={'value': 'final'},
                             on_success=edzed.Event(objs['entry'], DYN('put')), on_error=None)
            ctx.count('cleanup_events')
        if case.get('stopmode') == 'ctrl_then_error':
            class Failing(edzed.SBlock):
                def init_regular(self):
                    self.set_output(0)

                def _event(self, etype, data):
                    raise RuntimeError('vf: handler failure right after the stop request')
            Failing('failing')
            objs['trig'] = edzed.Input('trig', initdef=False)
            edzed.FuncBlock('trign', func=lambda x: bool(x), on_output=[
                edzed.Event('_ctrl', 'shutdown', efilter=edzed.not_from_undef),
                edzed.Event('failing', 'x', efilter=edzed.not_from_undef)]).connect('trig')
        # boundary recorder on every Repeat block (record and delegate)
        for r in repeats:
            orig = r.event

            def event(etype, /, _orig=orig, _r=r, **data):
                hist.log('enter', _r.name, etype, dict(data))
                try:
                    return _orig(etype, **data)
                finally:
                    hist.log('exit', _r.name, etype)
            r.event = event
        return objs

    async def drive(sim, objs):
        loop = asyncio.get_running_loop()
        t0 = loop.time()
        state['t0'] = t0
        uid = itertools.count(1)

        def fire(kind):
            n = next(uid)
            try:
                if kind == 'put':
                    if 'src' in objs:
                        edzed.ExtEvent(objs['src']).send(f"v{n}")
                    else:
                        edzed.ExtEvent(objs['entry'], DYN('put'), source=f"app{n}").send(
                            f"v{n}", uid=n, extra=('x', n))
                elif kind == 'nosrc' and 'src' not in objs:
                    # a direct event() call: the optional 'source' item is missing
                    ctx.count('events_without_source')
                    objs['entry'].event(DYN('put'), value=f"v{n}", uid=n)
                elif kind == 'nosrc':
                    edzed.ExtEvent(objs['src']).send(f"v{n}")
                elif kind == 'same':
                    # Input: same value again -> no output change -> no event at all
                    if 'src' in objs:
                        edzed.ExtEvent(objs['src']).send(objs['src'].output)
                    else:
                        edzed.ExtEvent(objs['entry'], 'put', source=f"app{n}").send(
                            f"v{n}", uid=n)
                elif kind == 'other':
                    target = objs.get('entry') or repeats[0]
                    hist.log('other_sent', target.name)
                    edzed.ExtEvent(target, 'otherevent').send(f"o{n}", uid=n)
            except Exception as err:    # pylint: disable=broad-except
                hist.log('send_exc', kind, repr(err))

        t = t0
        for delta, kind in case['arrivals']:
            t = abs_time(t, delta)
            loop.call_at(t, fire, kind)
        stop_at = abs_time(t0, case['stop'])
        await asyncio.sleep(stop_at - loop.time())
        state['outputs_before_stop'] = [r.output for r in repeats]
        state['alive_before_stop'] = sim.alive()
        hist.log('stop_called')
        if case.get('stopmode') == 'ctrl_then_error':
            # one output change of a combinational block sends two events: a 'shutdown' control
            # event and an event to a block whose handler fails - a stop request and an error
            # within one synchronous stretch of the simulation task
            ctx.count('shutdown_event_followed_by_handler_error')
            edzed.ExtEvent(objs['trig']).send(True)
            await asyncio.sleep(0)
            await asyncio.sleep(0)
        if case.get('stopmode') == 'double':
            # the stop is requested twice (e.g. a 'shutdown' control event and then the
            # application's own shutdown() while the clean-up is already in progress)
            sim.circuit.abort(asyncio.CancelledError('vf: first stop request'))
            await asyncio.sleep(0)
            await asyncio.sleep(0)

    def setup(loop):
        hist.loop = loop
        lat = case.get('latency')
        if lat:
            rng = ctx.rng('lat', core.case_hash(case))
            loop.latency = lambda: rng.random() * lat

    out = harness.run_sim(build, drive, drain=8.0, setup=setup)
    loop = out['loop']
    state['started'] = out['started']
    state['error'] = out['sim'].circuit.error if 'sim' in out else None
    state['exc'] = out['exc']
    state['after_tasks'] = [t.get_name() for t in loop.after_main['tasks']
                            if loop.task_is_edzed(t)]
    state['after_timers'] = len(loop.after_main['timers'])
    state['stop_vt'] = loop.after_main['vt']
    state['names'] = [r.name for r in repeats]
    state['exc_log'] = loop.exc_log
    return hist, state


def expected_data(indata, rname, k):
    exp = dict(indata)
    exp['orig_source'] = indata.get('source')
    exp['source'] = rname
    exp['repeat'] = k
    return exp


def judge(case, hist, state, ctx):
    import asyncio as aio
    count_of = {}
    names = state['names']
    for i, name in enumerate(names):
        count_of[name] = case.get('count2', case['count']) if (i == 1) else case['count']
    where = f"{case['structure']} count={case['count']} arrivals={case['arrivals']} stop={case['stop']}"
    if not state['started']:
        raise core.Violation('start-failed', f"{where}: simulation did not start: {state['error']!r}")
    if state['exc'] is not None:
        raise core.Violation('harness-run-exception', f"{where}: {state['exc']!r}")
    err = state['error']
    if not state['alive_before_stop'] or not isinstance(err, aio.CancelledError):
        raise core.Violation(
            'simulation-aborted',
            f"{where}: the simulation ended with {err!r} (cause {getattr(err, '__cause__', None)!r})")
    lat = case.get('latency') or 0.0
    entries = hist.entries
    stop_seq = next((e[0] for e in entries if e[2] == 'stop_called'), len(entries))
    stop_vt = next((e[1] for e in entries if e[2] == 'stop_called'), None)
    # deliveries of block `name` = entries entering the next block with source == name
    nontrivial = False
    for idx, name in enumerate(names):
        nxt = names[idx + 1] if idx + 1 < len(names) else 'dst'
        count = count_of[name]
        inputs = []     # (seq_enter, seq_exit, vt, etype, data)
        open_in = None
        outs = []       # (seq, vt, data, outputs snapshot or None)
        for e in entries:
            if e[2] == 'enter' and e[3] == name:
                open_in = e
            elif e[2] == 'exit' and e[3] == name and open_in is not None:
                inputs.append((open_in[0], e[0], open_in[1], open_in[4], open_in[5]))
                open_in = None
            elif nxt == 'dst' and e[2] == 'deliver':
                if e[5].get('source') == name:
                    outs.append((e[0], e[1], e[5], e[6][idx]))
                else:
                    raise core.Violation('foreign-delivery', f"{where}: destination got {e[5]!r}")
            elif nxt != 'dst' and e[2] == 'enter' and e[3] == nxt:
                if e[5].get('source') == name:
                    outs.append((e[0], e[1], e[5], None))
                elif not str(e[5].get('source', '')).startswith('_ext_'):
                    raise core.Violation('foreign-delivery', f"{where}: {nxt} got {e[5]!r}")
        matching = [i for i in inputs if i[3] == 'put']
        others = [i for i in inputs if i[3] != 'put']
        # (4) other types: nothing is sent while they are handled
        for seq_in, seq_out, vt, etype, data in others:
            ctx.count('other_type_ignored')
            if any(seq_in < o[0] < seq_out for o in outs):
                raise core.Violation('other-type-forwarded',
                                     f"{where}: {name} forwarded an event of type {etype!r}")
        # after the stop nothing may be delivered
        late = [o for o in outs if o[0] > stop_seq and o[1] > stop_vt + EPS]
        if late:
            raise core.Violation('delivery-after-stop',
                                 f"{where}: {name} delivered {late[0][2]!r} at {late[0][1]} "
                                 f"after the stop at {stop_vt}")
        pos = 0
        for n, (seq_in, seq_out, vt, etype, data) in enumerate(matching):
            nxt_in = matching[n + 1] if n + 1 < len(matching) else None
            end_seq = nxt_in[0] if nxt_in else float('inf')
            mine = []
            while pos < len(outs) and outs[pos][0] < end_seq:
                mine.append(outs[pos])
                pos += 1
            # (1) immediate forward with repeat=0 inside the handler
            if not mine or not (seq_in < mine[0][0] < seq_out):
                raise core.Violation('not-forwarded-immediately',
                                     f"{where}: {name}: event {data!r} at {vt} was not forwarded "
                                     "synchronously")
            exp0 = expected_data(data, name, 0)
            if mine[0][2] != exp0:
                raise core.Violation('wrong-forwarded-data',
                                     f"{where}: {name} forwarded {mine[0][2]!r}, expected {exp0!r}")
            if mine[0][3] is not None and mine[0][3] != 0:
                raise core.Violation('output-not-repeat-number',
                                     f"{where}: {name}.output={mine[0][3]!r} while sending repeat=0")
            if n > 0:
                ctx.count('restarts_judged')
                nontrivial = True
            inside = [m for m in mine[1:] if m[0] < seq_out]
            if inside:
                raise core.Violation('duplicate-immediate-forward',
                                     f"{where}: {name} sent {len(inside) + 1} events for one input")
            # (2) repetitions
            limit_vt = nxt_in[2] if nxt_in else stop_vt
            due = vt
            k = 0
            reps = mine[1:]
            for m in reps:
                k += 1
                due = due + IV
                if count is not None and k > count:
                    raise core.Violation('count-exceeded',
                                         f"{where}: {name} sent repeat={m[2].get('repeat')} "
                                         f"with count={count}")
                expk = expected_data(data, name, k)
                if m[2] != expk and m[2].get('repeat', 0) > 0 and any(
                        m[2] == expected_data(matching[j][4], name, m[2].get('repeat'))
                        for j in range(n)):
                    raise core.Violation(
                        'stale-repetition-after-newer-event',
                        f"{where}: {name} re-sent the OLD event {m[2]!r} at {m[1]!r} after the newer "
                        f"event {data!r} had been forwarded at {vt!r}")
                if m[2] != expk:
                    raise core.Violation('wrong-repetition-data',
                                         f"{where}: {name} repetition #{k}: {m[2]!r}, expected {expk!r}")
                if m[1] < due - EPS or m[1] > due + k * lat + EPS:
                    raise core.Violation('repetition-off-time',
                                         f"{where}: {name} repeat={k} at {m[1]!r}, due {due!r} "
                                         f"(event entered at {vt!r})")
                if m[3] is not None and m[3] != k:
                    raise core.Violation('output-not-repeat-number',
                                         f"{where}: {name}.output={m[3]!r} while sending repeat={k}")
                ctx.count('repetitions_judged')
                nontrivial = True
            # completeness: every repetition due strictly before the next arrival / the stop
            kk, d = len(reps), due
            while True:
                kk += 1
                d = d + IV
                if count is not None and kk > count:
                    if len(reps) == count and count > 0:
                        ctx.count('count_limit_reached')
                    break
                if d < limit_vt - EPS - kk * lat:
                    raise core.Violation('repetition-missing',
                                         f"{where}: {name} repeat={kk} due at {d!r} was never sent "
                                         f"(next arrival/stop at {limit_vt!r}, got {len(reps)} repetitions)")
                if abs(d - limit_vt) <= 2e-9 and nxt_in is not None:
                    ctx.count('ties_event_first')
                break
            if reps and nxt_in is not None and abs(reps[-1][1] - nxt_in[2]) <= 2e-9:
                ctx.count('ties_timer_first')
        if pos < len(outs):
            raise core.Violation('unexpected-delivery',
                                 f"{where}: {name} sent {outs[pos][2]!r} without any input")
        # output before stop = last repeat number sent
        last = [o for o in outs if o[0] < stop_seq]
        if last:
            exp_out = last[-1][2].get('repeat')
            if state['outputs_before_stop'][idx] != exp_out:
                raise core.Violation('output-not-repeat-number',
                                     f"{where}: {name}.output={state['outputs_before_stop'][idx]!r} "
                                     f"before the stop, last repeat number sent {exp_out!r}")
    ctx.count('after_stop_checked')
    if state['after_tasks'] or state['after_timers']:
        raise core.Violation('leftover-after-stop',
                             f"{where}: pending after shutdown: tasks {state['after_tasks']}, "
                             f"{state['after_timers']} block timers")
    if case['structure'].startswith('implicit'):
        ctx.count('implicit_cases')
    if len(names) == 2:
        ctx.count('chain_cases')
    return nontrivial


def run_one(case, ctx, enumerated=False):
    hist, state = run_case(case, ctx)
    try:
        nontrivial = judge(case, hist, state, ctx)
    except core.Violation as v:
        ctx.violation(case, v.key, v.msg, history=hist.dump(120))
        ctx.case_done(case, True)
        return
    sample = None
    if nontrivial and len(ctx.samples) < ctx.MAX_SAMPLES:
        sample = {'case': case, 'history': hist.dump(30)}
    ctx.case_done(case, nontrivial, sample, enumerated=enumerated)


STRUCTURES = ['explicit', 'implicit', 'chain', 'byname', 'implicit_chain']


def run_custom_etype(case, ctx):
    """
    Event types that are objects (subclasses of edzed.EventType) instead of strings: compared by
    value (a dataclass: equal, distinct, unhashable instances), frozen (hashable) or by identity.
    """
    import dataclasses
    import edzed
    kind = case['kind']
    if kind == 'eq':
        @dataclasses.dataclass
        class Alarm(edzed.EventType):
            level: int
    elif kind == 'frozen':
        @dataclasses.dataclass(frozen=True)
        class Alarm(edzed.EventType):
            level: int
    else:
        class Alarm(edzed.EventType):
            def __init__(self, level):
                self.level = level
    configured = Alarm(2)
    sent = configured if kind == 'identity' else Alarm(2)
    other = Alarm(3)
    log = []

    def build():
        class Dst(edzed.SBlock):
            def init_regular(self):
                self.set_output(0)

            def _event(self, etype, data):
                log.append((round(asyncio.get_running_loop().time() - 1000.0, 6), etype,
                            data.get('repeat'), data.get('value'), data.get('orig_source')))
        dst = Dst('dst')
        flt = edzed.not_from_undef
        if case['structure'] == 'implicit':
            src = edzed.Input('src', initdef='i', on_output=edzed.Event(
                dst, sent, repeat=case['interval'], count=case['count'], efilter=flt))
            rpt = next(iter(edzed.get_circuit().getblocks(edzed.Repeat)))
        else:
            rpt = edzed.Repeat('r1', dest=dst, etype=configured, interval=case['interval'],
                               count=case['count'])
            src = edzed.Input('src', initdef='i', on_output=edzed.Event('r1', sent, efilter=flt))
        oth = edzed.Input('oth', initdef='i', on_output=edzed.Event(rpt, other, efilter=flt))
        return {'src': src, 'oth': oth, 'rpt': rpt}

    async def drive(sim, objs):
        await asyncio.sleep(0.25)
        edzed.ExtEvent(objs['src']).send('v1')
        await asyncio.sleep(case['interval'] * 1.5)
        edzed.ExtEvent(objs['oth']).send('x1')          # another type: ignored
        await asyncio.sleep(case['interval'] * (case['count'] + 1))
        case_out = objs['rpt'].output
        log.append(('output', case_out))
        return sim.alive()
    out = harness.run_sim(build, drive, drain=5.0)
    where = f"event type object, {case}"
    if out['exc'] is not None or not out.get('started'):
        raise core.Violation('harness-run-exception' if out['exc'] is not None else 'start-failed',
                             f"{where}: {out['exc']!r} {out['sim'].circuit.error!r}")
    ctx.count('custom_event_type_cases')
    if out['result'] is not True:
        raise core.Violation('simulation-aborted', f"{where}: {out['sim'].circuit.error!r}")
    got = [e for e in log if e[0] != 'output']
    want = [(round(0.25 + k * case['interval'], 6), k) for k in range(case['count'] + 1)]
    if [(e[0], e[2]) for e in got] != want or any(e[1] != configured or e[3] != 'v1' for e in got):
        raise core.Violation(
            'repetition-wrong', f"{where}: deliveries (time, type, repeat, value, orig_source) "
            f"{got}, expected (time, repeat) {want} of type {configured!r} with value 'v1'")
    if log[-1] != ('output', case['count']):
        raise core.Violation('output-not-repeat-number', f"{where}: {log[-1]}")
    ctx.count('after_stop_checked')


def run_failed_start(case, ctx):
    """
    The simulation ends before its initialisation is complete (a block stays uninitialised)
    after a Repeat has already forwarded an event sent during the initialisation: nothing may
    be re-sent once the simulation has stopped.
    """
    import edzed
    log = []

    def build():
        class Dst(edzed.SBlock):
            def init_regular(self):
                self.set_output(0)

            def _event(self, etype, data):
                log.append((asyncio.get_running_loop().time(), data.get('repeat')))
        dst = Dst('dst')
        if case['structure'] == 'implicit':
            edzed.Input('src', initdef='init', on_output=edzed.Event(
                dst, 'put', repeat=case['interval'], count=case['count']))
        else:
            edzed.Repeat('r1', dest=dst, etype='put', interval=case['interval'], count=case['count'])
            edzed.Input('src', initdef='init', on_output=edzed.Event('r1', 'put'))
        # never initialised: no default, nothing saved, nobody sends it a value
        edzed.Input('late', persistent=case['persistent'])
        if case.get('slow'):
            class Slow(edzed.AddonAsync, edzed.SBlock):
                async def init_async(self):
                    await asyncio.sleep(2.25)
                    self.set_output(1)
            Slow('slow', init_timeout=5)
        return {}

    async def drive(_sim, _objs):
        raise core.Inconclusive("C18: the start with an uninitialised block succeeded")
    out = harness.run_sim(build, drive, drain=12.0,
                          storage={} if case['storage'] else None)
    where = f"failed start {case}"
    if isinstance(out['exc'], core.Inconclusive):
        raise out['exc']
    if out['exc'] is not None:
        raise core.Violation('harness-run-exception', f"{where}: {out['exc']!r}")
    loop = out['loop']
    end_vt = loop.after_main['vt']
    ctx.count('failed_start_runs')
    ctx.count('after_stop_checked')
    if not log:
        raise core.Violation('event-not-forwarded', f"{where}: the init-time event was not forwarded")
    late = [e for e in log if e[0] > end_vt + 1e-9]
    tasks = [t.get_name() for t in loop.after_main['tasks'] if loop.task_is_edzed(t)]
    if late or tasks or loop.after_main['timers']:
        raise core.Violation(
            'leftover-after-stop' if not late else 'repeated-after-stop',
            f"{where}: simulation ended at {end_vt}; deliveries after that {late[:4]}; pending "
            f"tasks {tasks}, {len(loop.after_main['timers'])} block timers")


def gen(ctx):
    quick = ctx.tier == 'quick'
    idx = 0
    deltas = DELTAS_SMALL if quick else DELTAS
    maxn = 2 if quick else 3
    for structure in STRUCTURES:
        for count in COUNTS:
            for n in range(1, maxn + 1):
                for ds in itertools.product(deltas, repeat=n - 1):
                    idx += 1
                    if idx % ctx.nshards != ctx.shard:
                        continue
                    first = 0.25
                    arrivals = [[first, 'put']] + [[d, 'put'] for d in ds]
                    total = first + sum(ds)
                    stop = total + STOPS[idx % len(STOPS)]
                    case = {'structure': structure, 'count': count, 'arrivals': arrivals,
                            'stop': round(stop, 9) if abs(stop - round(stop, 3)) < 1e-12 else stop,
                            'iv': idx % len(IV_NOTATIONS)}
                    if structure in ('chain', 'implicit_chain'):
                        case['count2'] = COUNTS[(idx // 7) % len(COUNTS)]
                    if idx % 5 == 0:
                        case['stopmode'] = 'double'
                    yield case, True
    # random part
    rng = ctx.rng('random')
    nrand = 360 if quick else 60000
    for i in range(nrand):
        structure = rng.choice(STRUCTURES)
        n = rng.randint(1, 4)
        arrivals = [[rng.choice([0.25, 0.0, 1.0]), 'put']]
        for _ in range(n - 1):
            kind = rng.choice(['put', 'put', 'put', 'other', 'same', 'nosrc'])
            arrivals.append([rng.choice(DELTAS), kind])
        total = sum(d for d, _ in arrivals)
        case = {'structure': structure, 'count': rng.choice(COUNTS), 'arrivals': arrivals,
                'stop': total + rng.choice(STOPS), 'iv': rng.randrange(len(IV_NOTATIONS))}
        if structure in ('chain', 'implicit_chain'):
            case['count2'] = rng.choice(COUNTS)
        if rng.random() < 0.25:
            case['latency'] = rng.choice([1e-4, 2e-3])
        if rng.random() < 0.25:
            case['stopmode'] = rng.choice(['double', 'double', 'ctrl_then_error'])
        if structure == 'implicit' and rng.random() < 0.4:
            case['strip_source'] = True
        if structure in ('explicit', 'byname', 'chain') and rng.random() < 0.3:
            case['cleanup_event'] = True
        if structure in ('explicit', 'byname', 'chain') and rng.random() < 0.25:
            case['vp_first'] = True
        yield case, False


def run_shard(ctx):
    for case, enumerated in gen(ctx):
        run_one(case, ctx, enumerated)
    idx = 0
    for structure in ('implicit', 'explicit'):
        for persistent, storage in ((True, True), (False, True), (True, False), (False, False)):
            for slow in (False, True):
                for interval, count in ((0.5, None), (1.0, 3), (4.0, None)):
                    idx += 1
                    if idx % ctx.nshards != ctx.shard:
                        continue
                    if persistent and storage and not slow:
                        cc = {'custom_etype': True, 'structure': structure, 'interval': interval,
                              'count': count or 2, 'kind': ['eq', 'frozen', 'identity'][idx % 3]}
                        try:
                            run_custom_etype(cc, ctx)
                        except core.Violation as v:
                            ctx.violation(cc, v.key, v.msg)
                        ctx.case_done(cc, True, None, enumerated=True)
                    case = {'failed_start': True, 'structure': structure, 'slow': slow,
                            'persistent': persistent, 'storage': storage, 'interval': interval,
                            'count': count}
                    try:
                        run_failed_start(case, ctx)
                    except core.Violation as v:
                        ctx.violation(case, v.key, v.msg)
                    ctx.case_done(case, True, None, enumerated=True)
    ctx.exhaustive = True


def replay(rep, ctx):
    if rep['case'].get('custom_etype'):
        try:
            run_custom_etype(rep['case'], ctx)
        except core.Violation as v:
            ctx.violation(rep['case'], v.key, v.msg)
        ctx.case_done(rep['case'], True)
        return
    if rep['case'].get('failed_start'):
        try:
            run_failed_start(rep['case'], ctx)
        except core.Violation as v:
            ctx.violation(rep['case'], v.key, v.msg)
        ctx.case_done(rep['case'], True)
        return
    run_one(rep['case'], ctx)
