"""
C04 - a timed state yields its timed event exactly once, on time, unless left earlier.

Online monitor over the observed history of one FSM on the virtual clock:
  * every entry into FSM.event (external stimuli and timer-originated calls, nesting included)
    is recorded by an instance-level record-and-delegate wrapper installed before any timer can
    be set (the timer callback is `self.event`, i.e. the wrapper);
  * every TimerHandle of the loop is recorded with creation time, due time and fate
    (VirtualLoop registry);
  * a reference interpreter (timed FSM semantics written from docs/FSM.rst) replays the observed
    sequence of top-level event entries and predicts return value, state, output, entry/exit
    actions and events, and - the point of this property - the armed timer after each event.
The monitor then checks the timer discipline (armed timer == the loop's live handles of the
block, timer-originated events only from the armed timer and on time, no missed expiry, nothing
after stop, get_state()[1] == expiry of the armed timer).
"""

import asyncio
import datetime as _dt

from .. import core, harness, vclock, vloop

PROP = 'C04'
TECHNIQUE = ("runtime monitoring: online monitor over observed FSM.event entries and the virtual loop's timer-handle registry (armed timer == live handles, on time, never stale), reference timed-FSM interpreter on a virtual clock")
LEVEL = 'exploration'
RULE = ("case = (block: generic timed FSM class generated with type() / Timer / InputExp; "
        "durations of timed states from {0, negative, d1, d2, INF, None+instance override, "
        "None+event override, None (error), strings with units}, given as class default, t_STATE "
        "and event data item 'duration'; timed events that are accepted, rejected by cond, "
        "without rule, Goto, self-loops, zero-duration chains and endless chains; stimuli "
        "(<=5 per case) aimed at the live timer handle: 1 us and 0.5 ns before/after the expiry "
        "(same loop iteration, both orders), exactly at the expiry, mid-interval, after; stop "
        "with a timer pending); quick: seeded sample, thorough: larger sample + injected wake-up "
        "latency; non-trivial = at least one timer was armed and either fired or was cancelled "
        "by an event")
ASSUMPTIONS = [
    "the sequence of top-level entries into FSM.event (observed, totally ordered) is replayed by "
    "the reference interpreter; the order of a stimulus and a timer expiry falling into the same "
    "loop iteration is taken from the observation, never assumed",
    "on time = the timer-originated event enters the block not earlier than 1 ns before the due "
    "time (loop clock resolution) and, without injected latency, not later than 1 ns after it; "
    "with injected latency L not later than L after it",
    "due time = loop time at the instant the state was entered + effective duration (event item "
    "'duration' > t_STATE > class default; ground truth of string notations owned by the "
    "generator)",
    "get_state()[1] is compared with the due time converted to the virtual wall clock "
    "(tolerance 1 ms); None is required when no timer is armed",
    "after an error inside the handler (no duration at all, endless chain) only 'the caller gets "
    "an EdzedCircuitError and the simulation stops' is judged",
]
REQUIRED = {'timers_armed': 500, 'timers_fired_on_time': 200, 'timers_cancelled_by_event': 200,
            'near_tie_event_first': 20, 'near_tie_timer_first': 20, 'exact_ties': 10,
            'rejected_timed_events': 30, 'zero_duration_chains': 50, 'inf_duration_states': 30,
            'event_duration_override': 50, 'instance_duration_override': 50,
            'stop_with_pending_timer': 50, 'no_duration_errors': 5, 'timer_block_cases': 100,
            'inputexp_cases': 100, 'get_state_expiry_checked': 500,
            'entry_action_chained_out_of_timed_state': 20, 'failed_start_cases': 20}
SHARDS = {'quick': 16, 'thorough': 16}
TIMEOUT = {'quick': 300, 'thorough': 3000}

NS = 5e-10
US = 1e-6
INF = float('inf')
TRUTH = {'INF': INF, '1m': 60.0, '0.5s': 0.5, '0m2s': 2.0, '1.5': 1.5, '0h0m0.25s': 0.25}
BASE = _dt.datetime(2021, 3, 4, 5, 6, 7)


class ModelError(Exception):
    def __init__(self, kind):
        super().__init__(kind)
        self.kind = kind


def truth(d):
    """Ground truth of a duration notation (None stays None)."""
    if d is None:
        return None
    if isinstance(d, str):
        return TRUTH[d]
    return float(d)


def real_dur(d):
    """Notation -> value handed to edzed."""
    if d == 'INF':
        return INF
    return d


class TModel:
    """Reference interpreter of a timed FSM."""

    def __init__(self, spec):
        self.spec = spec
        self.state = None
        self.armed = None           # (state, due, timed_event)
        self.condcalls = {}
        self.value = spec.get('initdef') if spec['kind'] == 'inputexp' else None
        self.initialized = False
        self.trans = {}
        for ev, frm, to in spec['events']:
            for f in (frm.split('|') if isinstance(frm, str) else [frm]):
                self.trans[(ev, f)] = to
        self.timed = {s: tuple(v) for s, v in spec['timers'].items()}
        self.nstates = len(set(spec['states']) | set(spec['timers']))

    def lookup(self, ev):
        if isinstance(ev, list):    # goto
            return ev[1]
        if (ev, self.state) in self.trans:
            return self.trans[(ev, self.state)]
        return self.trans.get((ev, None))

    def cond(self, ev, data):
        kind = self.spec['kind']
        if kind == 'timer':
            if ev == 'start':
                return self.spec['restartable'] or self.state != 'on'
            if ev == 'stop':
                return self.spec['restartable'] or self.state != 'off'
            return True
        if kind == 'inputexp':
            if ev == 'put':
                self.value = data['value']
            return True
        mode = self.spec.get('cond', {}).get(ev, 'always')
        n = self.condcalls[ev] = self.condcalls.get(ev, 0) + 1
        if mode == 'never':
            return False
        if mode == 'alt':
            return n % 2 == 1
        return True

    def duration(self, state, data):
        d = data.get('duration')
        if d is not None:
            return truth(d), 'event'
        inst = self.spec.get('inst', {})
        if inst.get(state) is not None:
            return truth(inst[state]), 'instance'
        d = self.timed[state][0]
        if d is None:
            raise ModelError('no-duration')
        return truth(d), 'default'

    def output(self):
        kind = self.spec['kind']
        if kind == 'timer':
            return self.state == 'on'
        if kind == 'inputexp':
            return self.value if self.state == 'valid' else self.spec['expired']
        return self.state

    def event(self, ev, data, now, rec):
        """
        Top-level event at loop time `now`.  rec collects: cbs (enter/exit callbacks), sevs
        (on_enter/on_exit events), notrans, chain (nested timed events), dursrc.
        Returns True/False, raises ModelError.
        """
        is_goto = isinstance(ev, list)
        if not is_goto and ev not in {e for e, _f, _t in self.spec['events']}:
            raise ModelError('unknown-event')
        new = self.lookup(ev)
        if new is None:
            rec['notrans'].append((ev, self.state))
            return False
        if not is_goto and self.initialized and not self.cond(ev, data):
            return False
        if self.state is not None:
            rec['cbs'].append(('exit', self.state))
            rec['sevs'].append(('exit', self.state))
            if self.spec.get('exit_fail') == self.state:
                # the last on_exit event goes to a block that does not know the event type: a
                # harmless failure; the transition is abandoned, the FSM stays in the state and
                # a pending timer keeps running
                raise ModelError('exit-unknown-event')
            if self.armed is not None:
                rec['cancelled'] = True
            self.armed = None
        for _ in range(3 * self.nstates):
            self.state = new
            rec['cbs'].append(('enter', new))
            chain_ev = self.spec.get('enter_chain', {}).get(new)
            if chain_ev is not None and data.get('chain'):
                # the entry action requests a chained transition: if it is accepted the state
                # is only an intermediate one and its timer must not be started at all
                rec['chain'].append(chain_ev)
                nxt = self.lookup(chain_ev)
                if nxt is None:
                    rec['notrans'].append((chain_ev, self.state))
                elif isinstance(chain_ev, list) or not self.initialized or self.cond(chain_ev, {}):
                    rec['cbs'].append(('exit', new))
                    rec['chained_from_timed'] = new in self.timed
                    new, data = nxt, {}
                    continue
            if new in self.timed:
                dur, src = self.duration(new, data)
                rec['dursrc'].append(src)
                tev = self.timed[new][1]
                if dur == INF:
                    rec['inf'] = True
                elif dur <= 0:
                    rec['chain'].append(tev)
                    nxt = self.lookup(tev)
                    if nxt is None:
                        rec['notrans'].append((tev, self.state))
                    elif isinstance(tev, list) or not self.initialized or self.cond(tev, {}):
                        rec['cbs'].append(('exit', new))
                        new, data = nxt, {}
                        continue
                    else:
                        rec['rejected_timed'] = True
                else:
                    self.armed = (new, now + dur, tev)
            break
        else:
            raise ModelError('chain-limit')
        rec['sevs'].append(('enter', self.state))
        self.initialized = True
        return True


def etype_key(et):
    """Canonical form of an event type (str or Goto) for logs."""
    if isinstance(et, str):
        return et
    return ['goto', getattr(et, 'state', repr(et))]


def addon_parts(edzed, spec, kw):
    """
    Optionally combine the generic FSM class with the AddonAsync add-on.

    (Only generic classes, created in one step: FSM collects the enter_/exit_/cond_ methods
    from the class body alone, so deriving from Timer/InputExp or from a finished FSM class
    would silently drop their callbacks - a limitation of the library outside this property.)
    """
    addon = spec.get('addon')
    if not addon:
        return (), {}
    ns = {}
    if addon in ('stop_async', 'stop_async_disabled'):
        async def stop_async(self):
            await asyncio.sleep(0.05)
        ns['stop_async'] = stop_async
        kw['stop_timeout'] = 0 if addon == 'stop_async_disabled' else 2.0
    if addon == 'async_init':
        # AddonAsyncInit placed before the FSM in the bases: the block waits (shortly) for a
        # first value during the asynchronous initialisation, then it is an ordinary FSM
        kw['init_timeout'] = 0.2
        return (edzed.AddonAsyncInit,), ns
    # addon == 'plain': the add-on without any asynchronous clean-up (e.g. the class only
    # wants _create_monitored_task) - stop() must still be called and cancel the timer
    return (edzed.AddonAsync,), ns


def build_block(edzed, spec, hist, probes):
    kind = spec['kind']
    kw = {}
    if spec.get('persistent'):
        kw['persistent'] = True
    for st in spec['watch']:
        kw[f"on_enter_{st}"] = edzed.Event(probes, 'enter')
        kw[f"on_exit_{st}"] = edzed.Event(probes, 'exit')
    kw['on_notrans'] = edzed.Event(probes, 'notrans')
    if spec.get('exit_fail') in spec['watch']:
        st = spec['exit_fail']
        picky = edzed.Input('picky', initdef=0)
        kw[f"on_exit_{st}"] = [kw[f"on_exit_{st}"], edzed.Event(picky, 'vf_nosuch_event')]
    if kind == 'timer':
        for k, v in spec.get('targs', {}).items():
            kw[k] = real_dur(v)
        if spec.get('initdef') is not None:
            kw['initdef'] = spec['initdef']
        return edzed.Timer('fsm', restartable=spec['restartable'], **kw)
    if kind == 'inputexp':
        if 'initdef' in spec:
            kw['initdef'] = spec['initdef']
        return edzed.InputExp('fsm', duration=real_dur(spec['inst'].get('valid')),
                              expired=spec['expired'], **kw)
    ns = {
        'STATES': tuple(spec['states']),
        'TIMERS': {s: (real_dur(d), edzed.Goto(e[1]) if isinstance(e, list) else e)
                   for s, (d, e) in spec['timers'].items()},
        'EVENTS': tuple((e, f, t) for e, f, t in spec['events']),
    }
    for st in spec['watch']:
        def enter(self, st=st):
            hist.log('cb', 'enter', st)
            chain_ev = spec.get('enter_chain', {}).get(st)
            if chain_ev is not None and edzed.fsm_event_data.get().get('chain'):
                self.event(edzed.Goto(chain_ev[1]) if isinstance(chain_ev, list) else chain_ev)
        ns[f"enter_{st}"] = enter
        ns[f"exit_{st}"] = lambda self, st=st: hist.log('cb', 'exit', st)
    calls = {}
    for ev, mode in spec.get('cond', {}).items():
        def cond(self, ev=ev, mode=mode):
            n = calls[ev] = calls.get(ev, 0) + 1
            return {'never': False, 'alt': n % 2 == 1}.get(mode, True)
        ns[f"cond_{ev}"] = cond
    bases, extra = addon_parts(edzed, spec, kw)
    ns.update(extra)
    cls = type('GenTimed', bases + (edzed.FSM,), ns)
    for st, d in spec.get('inst', {}).items():
        kw[f"t_{st}"] = real_dur(d)
    if spec.get('initdef') is not None:
        kw['initdef'] = spec['initdef']
    return cls('fsm', **kw)


def run_case(case, ctx):
    import edzed
    spec = case['spec']
    hist = core.History()
    state = {'depth': 0}
    clock_holder = {}

    storage = {}

    def build():
        class Probes(edzed.SBlock):
            def init_regular(self):
                self.set_output(0)

            def _event(self, etype, data):
                if etype == 'notrans':
                    hist.log('notrans', etype_key(data.get('event')), data.get('state'))
                else:
                    hist.log('sev', etype, data.get('state'), data.get('value'))
        probes = Probes('probes')
        if case.get('failed_start'):
            # start-up fails after an output block with stop_data was started and before the
            # FSM is started: the clean-up delivers stop_data, its on_success event drives the
            # never started FSM into a timed state - no timer may survive the simulation
            ev, data = case['failed_start']
            edzed.OutputFunc('of', func=lambda *a: real_dur(data.get('duration', 1.0)),
                             f_args=(), stop_data={'x': 1}, on_error=None,
                             on_success=edzed.Event('fsm', ev, efilter=lambda d: {
                                 k: real_dur(v) for k, v in data.items()}))

            class BadStart(edzed.SBlock):
                def init_regular(self):
                    self.set_output(0)

                def start(self):
                    super().start()
                    raise RuntimeError('start fault')
            BadStart('bad')
        if case.get('double_stop'):
            class SlowStop(edzed.AddonAsync, edzed.SBlock):
                def init_regular(self):
                    self.set_output(0)

                async def stop_async(self):
                    await asyncio.sleep(0.5)
            SlowStop('slowstop', stop_timeout=3)
        if case.get('decoys'):
            # other instances of the same library classes with other durations, created before
            # and after the block under test: nothing may be shared between instances
            edzed.Timer('decoy_t1', t_on=555.0, t_off='7m')
            edzed.InputExp('decoy_i1', duration=555.0, expired='dx', initdef='d1')
        if case.get('failing_stops'):
            # other blocks whose stop() fails ("logged, but otherwise ignored"), created before
            # and after the FSM (the stop order of blocks without asynchronous clean-up is
            # undefined): the FSM is stopped - its timer cancelled - all the same
            class BadStop(edzed.SBlock):
                def init_regular(self):
                    self.set_output(0)

                def stop(self):
                    super().stop()
                    raise KeyError('vf: stop() fault')
            keep = [BadStop(f"badstop{k}") for k in range(4)]
            core.perturb_addresses(ctx.rng('badstop', case.get('failing_stops')), keep)
            ctx.count('cases_with_failing_stop_of_other_blocks')
        fsm = build_block(edzed, spec, hist, probes)
        if case.get('failing_stops'):
            for k in range(4, 8):
                BadStop(f"badstop{k}")
        if case.get('decoys'):
            edzed.Timer('decoy_t2', t_period=1554.0, initdef='on')
            edzed.InputExp('decoy_i2', duration='12m57s', expired='dx', initdef='d2')
            ctx.count('cases_with_decoy_instances')
        rst = case.get('restore')
        if rst:
            # the block is restored from saved state: in a timed state, its timer due later
            wall0 = (BASE - _dt.datetime(1970, 1, 1)).total_seconds()
            sdata = {'input': rst['value']} if spec['kind'] == 'inputexp' else {}
            storage[fsm.key] = [rst['state'], wall0 + rst['remaining'], sdata]
            storage['edzed-stop-time'] = wall0 - 10.0
            ctx.count('restored_with_running_timer')
        orig = fsm.event

        def owned(h):
            cb = h._callback
            return getattr(cb, '_vf_owner', None) is fsm or getattr(cb, '__self__', None) is fsm
        state['owned'] = owned

        def live_handles():
            loop = hist.loop
            return [(h._when, etype_key(h._args[0]) if h._args else None, h.vf_created)
                    for h in loop.handles
                    if owned(h) and not h._cancelled and not h.vf_fired]

        def event(etype, /, **data):
            depth = state['depth']
            hist.log('ev_enter', depth, etype_key(etype), dict(data))
            state['depth'] += 1
            try:
                ret = orig(etype, **data)
            except BaseException as err:
                state['depth'] -= 1
                hist.log('ev_exit', depth, ('exc', type(err).__name__, str(err)[:120]),
                         fsm.state if fsm.state is not edzed.UNDEF else None, live_handles(),
                         None, None)
                raise
            state['depth'] -= 1
            try:
                gs = fsm.get_state()[1]
            except Exception as err:    # pylint: disable=broad-except
                gs = ('exc', repr(err))
            out = fsm.output
            hist.log('ev_exit', depth, ('ret', ret),
                     fsm.state if fsm.state is not edzed.UNDEF else None, live_handles(), gs,
                     None if out is edzed.UNDEF else out)
            return ret
        event._vf_owner = fsm
        fsm.event = event
        state['live'] = live_handles
        return {'fsm': fsm}

    async def drive(sim, objs):
        loop = asyncio.get_running_loop()
        fsm = objs['fsm']
        t0 = loop.time()
        state['t0'] = t0
        done = asyncio.Event()
        stims = case['stims']

        def when_for(aim):
            live = state['live']()
            now = loop.time()
            if live:
                due = live[0][0]
                table = {'-us': due - US, '-ns': due - NS, 'at': due, '+ns': due + NS,
                         '+us': due + US, 'mid': now + (due - now) / 2, 'after': due + 0.3}
                if aim in table:
                    return table[aim]
            return now + {'mid': 0.11, 'after': 0.7}.get(aim, 0.4)

        def fire(k):
            aim, ev, data = stims[k]
            if not sim.alive():
                hist.log('stim_skipped', k)
                done.set()
                return
            hist.log('stim', k, ev, data)
            try:
                if isinstance(ev, list):
                    ret = fsm.event(edzed.Goto(ev[1]), source='_ext_goto',
                                    **{k2: real_dur(v) for k2, v in data.items()})
                else:
                    ret = edzed.ExtEvent(fsm, ev).send(
                        **{k2: real_dur(v) for k2, v in data.items()})
                hist.log('stim_ret', k, ('ret', ret))
            except Exception as err:    # pylint: disable=broad-except
                hist.log('stim_ret', k, ('exc', type(err).__name__, str(err)[:120]))
            if k + 1 < len(stims) and sim.alive():
                loop.call_at(when_for(stims[k + 1][0]), fire, k + 1)
            else:
                done.set()

        if stims:
            loop.call_at(when_for(stims[0][0]), fire, 0)
            await done.wait()
        tail = case.get('tail', 'after')
        if sim.alive():
            live = state['live']()
            if tail == 'pending' and live:
                await asyncio.sleep(max(0.0, (live[0][0] - loop.time()) / 2))
            elif tail == 'long':
                await asyncio.sleep(130.0)
            else:
                await asyncio.sleep(3.3)
        state['alive_before_stop'] = sim.alive()
        state['live_before_stop'] = state['live']()
        hist.log('stop_called')
        if case.get('double_stop'):
            # the stop is requested, and while the block with asynchronous clean-up is being
            # stopped another (now irrelevant) error is reported to the simulator
            ctx.count('error_reported_during_cleanup')
            sim.circuit.abort(asyncio.CancelledError('vf: stop requested'))
            await asyncio.sleep(0.1)
            sim.circuit.abort(RuntimeError('vf: a late error report'))

    def setup(loop):
        hist.loop = loop
        # (a few FSMs: thousands of iterations / hundreds of timers at one instant = busy loop)
        loop.stall_limit = 3000
        loop.stall_timer_limit = 200
        clock = vclock.VClock(loop, BASE)
        vclock.install(clock)
        clock_holder['clock'] = clock
        lat = case.get('latency')
        if lat:
            rng = ctx.rng('lat', core.case_hash(case))
            loop.latency = lambda: rng.random() * lat

    try:
        # (the reference point of loop.time() is undefined and differs from loop to loop)
        out = harness.run_sim(build, drive, setup=setup,
                              start=ctx.rng('loopstart', core.case_hash(case)).choice(
                                  [1000.0, 1000.0, 7.25, 3000.5, 20000.0]),
                              storage=storage if case.get('restore') else None,
                              drain=30.0 if case.get('failed_start') else 86400.0,
                              drain_budget=2000)
    finally:
        vclock.uninstall()
    loop = out['loop']
    state['started'] = out['started']
    state['init_exc'] = out['sim'].init_exc
    state['error'] = out['sim'].circuit.error
    state['exc'] = out['exc']
    state['stop_vt'] = loop.after_main['vt']
    state['loop_t0'] = loop.t0
    state['drain_exc'] = getattr(loop, 'drain_exc', None)
    state['live_after_stop'] = [(h._when,) for h in loop.after_main['timers']]
    fsm = out['objs']['fsm']
    state['own_after_stop'] = [
        h._when for h in loop.handles if state['owned'](h)
        and not h._cancelled and (not h.vf_fired or h.vf_fired_at > loop.after_main['vt'])]
    state['wall0'] = (BASE - _dt.datetime(1970, 1, 1)).total_seconds() - loop.t0
    return hist, state


def judge(case, hist, state, ctx):
    import edzed  # noqa: F401
    spec = case['spec']
    lat = case.get('latency') or 0.0
    where = f"spec={ {k: v for k, v in spec.items() if k != 'watch'} } stims={case['stims']} tail={case.get('tail')}"
    if state['exc'] is not None:
        raise core.Violation('harness-run-exception', f"{where}: {state['exc']!r}")
    if case.get('failed_start'):
        if state['started']:
            raise core.Inconclusive("C04: the failing start() did not fail the start-up")
        ctx.count('failed_start_cases')
        if state['own_after_stop'] or state['live_after_stop']:
            raise core.Violation(
                'timer-pending-after-stop',
                f"{where}: start-up failed, an event of the clean-up reached the never started "
                f"block; timers left after the end: {state['own_after_stop'][:5]} {state['live_after_stop'][:5]}")
        return True
    model = TModel(spec)
    rst = case.get('restore')
    if rst:
        model.state = rst['state']
        model.initialized = True
        model.armed = (rst['state'], state['loop_t0'] + rst['remaining'], model.timed[rst['state']][1])
        if spec['kind'] == 'inputexp':
            model.value = rst['value']
    E = hist.entries
    nontrivial = False
    # split the history into top-level event entries
    i = 0
    pending_error = None
    pending_error_seq = None
    stop_seq = next((e[0] for e in E if e[2] == 'stop_called'), len(E))
    tops = []
    cur = None
    for e in E:
        if e[2] == 'ev_enter' and e[3] == 0:
            cur = {'enter': e, 'inner': [], 'exit': None}
        elif e[2] == 'ev_exit' and e[3] == 0 and cur is not None:
            cur['exit'] = e
            tops.append(cur)
            cur = None
        elif cur is not None:
            cur['inner'].append(e)
        elif e[2] in ('cb', 'sev', 'notrans'):
            raise core.Violation('action-outside-event',
                                 f"{where}: {e[2:]} logged outside any event of the block")
    if cur is not None:
        raise core.Violation('event-never-returned', f"{where}: {cur['enter'][2:]}")
    wall0 = state['wall0']
    for top in tops:
        ent, ext = top['enter'], top['exit']
        seq, now, _k, _d, ev, data = ent
        if seq > stop_seq and now > state['stop_vt'] + 1e-9:
            raise core.Violation('event-after-stop',
                                 f"{where}: event {ev!r} entered the block at {now} after the stop")
        timer_originated = 'source' not in data
        if pending_error is not None:
            raise core.Violation('event-after-fatal-error',
                                 f"{where}: event {ev!r} {data!r} after {pending_error}")
        # ---- timer discipline before the event ----
        armed = model.armed
        if timer_originated and model.state is not None:
            if armed is None:
                raise core.Violation(
                    'stale-timed-event',
                    f"{where}: timed event {ev!r} delivered at {now!r} in state {model.state!r} "
                    "although no timer was armed (state left/re-entered, rejected or expired before)")
            _st, due, tev = armed
            if ev != tev:
                raise core.Violation('wrong-timed-event', f"{where}: {ev!r} delivered, armed {tev!r}")
            if now < due - 1.5e-9:
                raise core.Violation(
                    'stale-timed-event' if now < due - 1e-6 else 'timed-event-early',
                    f"{where}: timed event {ev!r} delivered at {now!r}, the armed timer is due at {due!r}")
            if now > due + lat + 1.5e-9:
                raise core.Violation('timed-event-late',
                                     f"{where}: timed event {ev!r} delivered at {now!r}, due at {due!r}")
            ctx.count('timers_fired_on_time')
            nontrivial = True
            model.armed = None
        elif armed is not None:
            due = armed[1]
            if now > due + lat + 1.5e-9:
                raise core.Violation(
                    'timed-event-missed',
                    f"{where}: state {armed[0]!r} timer due at {due!r} never fired; next event "
                    f"{ev!r} entered at {now!r}")
        # ---- replay ----
        rec = {'cbs': [], 'sevs': [], 'notrans': [], 'chain': [], 'dursrc': []}
        exp_exc = None
        was_armed = model.armed is not None
        try:
            exp_ret = model.event(ev, data, now, rec)
        except ModelError as err:
            exp_exc = err.kind
            exp_ret = None
        got = ext[4]
        if exp_exc == 'unknown-event':
            if got[0] != 'exc' or got[1] != 'EdzedUnknownEvent':
                raise core.Violation('unknown-event-not-refused', f"{where}: {ev!r} -> {got!r}")
            continue
        if exp_exc == 'exit-unknown-event':
            ctx.count('transitions_abandoned_by_harmless_exit_failure')
            if got[0] != 'exc' or got[1] != 'EdzedUnknownEvent':
                raise core.Violation('harmless-exit-failure-misreported',
                                     f"{where}: {ev!r} -> {got!r}, expected EdzedUnknownEvent")
            if ext[5] != model.state:
                raise core.Violation('wrong-state',
                                     f"{where}: after the abandoned transition the state is "
                                     f"{ext[5]!r}, expected {model.state!r}")
            continue
        if exp_exc is not None:
            ctx.count('no_duration_errors' if exp_exc == 'no-duration' else 'chain_limit_errors')
            if got[0] != 'exc' or got[1] != 'EdzedCircuitError':
                raise core.Violation('missing-error',
                                     f"{where}: {ev!r} expected EdzedCircuitError ({exp_exc}), got {got!r}")
            pending_error = exp_exc
            pending_error_seq = seq
            continue
        if got != ('ret', exp_ret):
            raise core.Violation('wrong-return-value',
                                 f"{where}: event {ev!r} {data!r} in state {model.state!r} returned "
                                 f"{got!r}, expected {exp_ret!r}")
        if rec.get('cancelled'):
            ctx.count('timers_cancelled_by_event')
            nontrivial = True
            if armed is not None and abs(now - armed[1]) <= 1.5e-9:
                ctx.count('exact_ties' if now == armed[1] else 'near_tie_event_first')
        if timer_originated and not exp_ret:
            ctx.count('rejected_timed_events')
        if rec['chain']:
            ctx.count('zero_duration_chains')
        if rec.get('chained_from_timed'):
            ctx.count('entry_action_chained_out_of_timed_state')
        if rec.get('inf'):
            ctx.count('inf_duration_states')
        if 'event' in rec['dursrc']:
            ctx.count('event_duration_override')
        if 'instance' in rec['dursrc']:
            ctx.count('instance_duration_override')
        if ext[5] != model.state:
            raise core.Violation('wrong-state',
                                 f"{where}: after {ev!r} state {ext[5]!r}, expected {model.state!r}")
        # actions
        got_cbs = [(x[3], x[4]) for x in top['inner'] if x[2] == 'cb']
        got_sevs = [(x[3], x[4]) for x in top['inner'] if x[2] == 'sev']
        got_notrans = [(x[3], x[4]) for x in top['inner'] if x[2] == 'notrans']
        watch = set(spec['watch'])
        if spec['kind'] == 'generic':
            exp_cbs = [c for c in rec['cbs'] if c[1] in watch]
            if got_cbs != exp_cbs:
                raise core.Violation('wrong-actions',
                                     f"{where}: event {ev!r}: callbacks {got_cbs}, expected {exp_cbs}")
        exp_sevs = [c for c in rec['sevs'] if c[1] in watch]
        if got_sevs != exp_sevs:
            raise core.Violation('wrong-state-events',
                                 f"{where}: event {ev!r}: on_enter/on_exit {got_sevs}, expected {exp_sevs}")
        if got_notrans != [(e2 if not isinstance(e2, list) else e2, s2) for e2, s2 in rec['notrans']]:
            raise core.Violation('wrong-notrans',
                                 f"{where}: event {ev!r}: notrans {got_notrans}, expected {rec['notrans']}")
        got_chain = [x[4] for x in top['inner'] if x[2] == 'ev_enter']
        if got_chain != rec['chain']:
            raise core.Violation('wrong-chain',
                                 f"{where}: event {ev!r}: nested timed events {got_chain}, expected {rec['chain']}")
        if ext[8] != model.output() and model.state is not None:
            raise core.Violation('wrong-output',
                                 f"{where}: after {ev!r} output {ext[8]!r}, expected {model.output()!r}")
        # ---- timer discipline after the event: live handles == armed timer ----
        live = ext[6]
        if model.armed is None:
            if live:
                raise core.Violation(
                    'timer-left-pending',
                    f"{where}: after {ev!r} (state {model.state!r}) {len(live)} timer(s) pending "
                    f"{live}, expected none")
        else:
            ctx.count('timers_armed')
            _st, due, tev = model.armed
            if len(live) != 1:
                raise core.Violation(
                    'no-timer-armed' if not live else 'two-timers-pending',
                    f"{where}: after {ev!r} state {model.state!r}: live timers {live}, expected one "
                    f"due at {due!r}")
            if abs(live[0][0] - due) > 1e-9 or live[0][1] != tev:
                raise core.Violation(
                    'timer-wrong-duration',
                    f"{where}: after {ev!r} at {now!r} state {model.state!r}: timer {live[0]}, "
                    f"expected due {due!r} (duration {due - now!r}) event {tev!r}")
        # get_state()[1]
        gs = ext[7]
        ctx.count('get_state_expiry_checked')
        if model.armed is None:
            if gs is not None:
                raise core.Violation(
                    'get_state-expiry-without-timer',
                    f"{where}: after {ev!r} (state {model.state!r}, no timer armed"
                    f"{', timed event was rejected' if timer_originated and not exp_ret else ''}) "
                    f"get_state()[1] = {gs!r}, now(wall) = {now + wall0!r}")
        else:
            if not isinstance(gs, float) or abs(gs - (model.armed[1] + wall0)) > 1e-3:
                raise core.Violation('get_state-wrong-expiry',
                                     f"{where}: get_state()[1] = {gs!r}, expected {model.armed[1] + wall0!r}")
    # ---- start-up ----
    if not state['started']:
        if pending_error is None:
            raise core.Violation('start-failed', f"{where}: {state['error']!r}")
        return True
    # ---- end of the scenario ----
    if pending_error is not None:
        # (an error that happened after the stop request, during the clean-up of other blocks,
        # could not have stopped the simulation earlier)
        if state['alive_before_stop'] and pending_error_seq < stop_seq:
            raise core.Violation('error-did-not-stop-simulation', f"{where}: {pending_error}")
    else:
        if not state['alive_before_stop']:
            raise core.Violation('simulation-aborted', f"{where}: {state['error']!r}")
        stop_called_vt = next(e[1] for e in E if e[2] == 'stop_called')
        if model.armed is not None:
            due = model.armed[1]
            if due < stop_called_vt - lat - 1.5e-9:
                raise core.Violation('timed-event-missed',
                                     f"{where}: timer due at {due!r} never fired (stop at {stop_called_vt!r})")
            ctx.count('stop_with_pending_timer')
            nontrivial = True
    if state['own_after_stop'] or state['live_after_stop']:
        raise core.Violation('timer-pending-after-stop',
                             f"{where}: timers after the stop: {state['own_after_stop'][:5]} {state['live_after_stop'][:5]}")
    if state.get('drain_exc') is not None:
        raise core.Violation('activity-after-stop',
                             f"{where}: after the end of the simulation: {state['drain_exc']!r}")
    if spec['kind'] == 'timer':
        ctx.count('timer_block_cases')
    elif spec['kind'] == 'inputexp':
        ctx.count('inputexp_cases')
    # counters for near ties where the timer came first
    for a, b in zip(tops, tops[1:]):
        if 'source' not in a['enter'][5] and 'source' in b['enter'][5] \
                and abs(a['enter'][1] - b['enter'][1]) <= 1.5e-9:
            ctx.count('near_tie_timer_first')
    return nontrivial


# ---------------------------------------------------------------------------------------------

DURS = [0, -1, 1.0, 2.5, 'INF', '1m', '0.5s', '0m2s', '1.5', '0h0m0.25s', 0.75]
EV_DURS = [None, None, None, 0, 0.25, '0.5s', 'INF', 3.0, -2, '0m2s']
AIMS = ['-us', '-ns', 'at', '+ns', '+us', 'mid', 'after', 'at', '-ns', '+ns', 'at', 'at']


def random_generic(rng):
    timed = ['T1'] if rng.random() < 0.4 else ['T1', 'T2']
    untimed = ['A'] if rng.random() < 0.5 else ['A', 'B']
    timers, events, cond, inst = {}, [], {}, {}
    allst = untimed + timed
    for i, st in enumerate(timed, 1):
        d = rng.choice(DURS + [None, None])
        tev = f"tout{i}"
        r = rng.random()
        if r < 0.25:
            timers[st] = [d, ['goto', rng.choice(allst)]]
        else:
            timers[st] = [d, tev]
            r2 = rng.random()
            if r2 < 0.6:
                events.append([tev, st, rng.choice(allst)])
            elif r2 < 0.75:
                events.append([tev, None, rng.choice(allst)])
            elif r2 < 0.85:
                events.append([tev, st, None])
            else:
                events.append([tev, rng.choice(untimed), rng.choice(allst)])   # no rule in st
            if rng.random() < 0.25:
                cond[tev] = rng.choice(['never', 'alt'])
        if d is None:
            if rng.random() < 0.8:
                inst[st] = rng.choice(DURS)
        elif rng.random() < 0.3:
            inst[st] = rng.choice(DURS + [None])
    events.append(['go1', None, 'T1'])
    if 'T2' in timed:
        events.append(['go2', rng.choice([None, 'A', 'A|T1']), 'T2'])
    events.append(['back', None, 'A'])
    if 'B' in untimed:
        events.append(['hop', 'A|T1', 'B'])
    if rng.random() < 0.2:
        cond['go1'] = 'alt'
    spec = {'kind': 'generic', 'states': untimed, 'timers': timers, 'events': events,
            'cond': cond, 'inst': inst, 'watch': allst,
            'initdef': rng.choice([None, None, 'A', 'T1'])}
    if rng.random() < 0.3:
        # entry action of a (timed) state that chains another transition on request
        st = rng.choice(timed + timed + untimed)
        spec['enter_chain'] = {st: rng.choice(['back', 'go1', ['goto', rng.choice(allst)]])}
    evnames = sorted({e for e, _f, _t in events}) + ['bogus']
    stims = []
    for _ in range(rng.randint(1, 5)):
        ev = rng.choice(evnames + ['go1', 'go1', 'back'])
        if rng.random() < 0.1:
            ev = ['goto', rng.choice(allst)]
        data = {}
        d = rng.choice(EV_DURS)
        if d is not None:
            data['duration'] = d
        if 'enter_chain' in spec and rng.random() < 0.5:
            data['chain'] = True
        stims.append([rng.choice(AIMS), ev, data])
    return spec, stims


def random_timer(rng):
    targs = {}
    r = rng.random()
    if r < 0.25:
        targs['t_on'] = rng.choice(DURS)
    elif r < 0.5:
        targs['t_on'] = rng.choice(DURS)
        targs['t_off'] = rng.choice(DURS)
    elif r < 0.7:
        targs['t_period'] = rng.choice([1.0, 3.0, '0m2s'])
    elif r < 0.8:
        targs['t_off'] = rng.choice(DURS)
    elif r < 0.9:
        # an explicit None (= 'not set here, the default applies') after a real duration
        targs['t_on'] = rng.choice([d for d in DURS if d is not None] or [1.0])
        targs['t_off'] = None
    inst = {}
    if 't_period' in targs:
        inst['on'] = inst['off'] = truth(targs['t_period']) / 2
    else:
        if 't_on' in targs:
            inst['on'] = targs['t_on']
        if 't_off' in targs:
            inst['off'] = targs['t_off']
    # both durations <= 0 would be an endless chain: legitimate error case, keep it rare
    spec = {'kind': 'timer', 'states': ['off', 'on'],
            'timers': {'on': ['INF', 'stop'], 'off': ['INF', 'start']},
            'events': [['start', None, 'on'], ['stop', None, 'off'], ['toggle', 'on', 'off'],
                       ['toggle', 'off', 'on']],
            'inst': inst, 'targs': targs, 'restartable': rng.random() < 0.6,
            'watch': ['on', 'off'], 'initdef': rng.choice([None, None, 'on', 'off'])}
    stims = []
    for _ in range(rng.randint(1, 5)):
        data = {}
        d = rng.choice(EV_DURS)
        if d is not None:
            data['duration'] = d
        stims.append([rng.choice(AIMS), rng.choice(['start', 'stop', 'toggle', 'start']), data])
    return spec, stims


def random_inputexp(rng):
    dur = rng.choice([1.0, 2.5, '0.5s', '1m', None, 0, 'INF'])
    spec = {'kind': 'inputexp', 'states': ['expired', 'valid'],
            'timers': {'valid': [None, ['goto', 'expired']]},
            'events': [['put', None, 'valid']], 'inst': {'valid': dur},
            'expired': rng.choice([None, 'EXP', 0]), 'watch': ['expired', 'valid']}
    if rng.random() < 0.5 and dur is not None:
        spec['initdef'] = 'v_init'
    stims = []
    for n in range(rng.randint(1, 5)):
        data = {'value': f"v{n}" if rng.random() < 0.6 else rng.choice(['same', 'same', 'v_init'])}
        # (no duration anywhere - not in the event, not in the instance, not in the class - is an
        # error; other instances of the class, the decoys, do have one)
        d = rng.choice(EV_DURS if dur is not None or rng.random() < 0.25 else EV_DURS[3:])
        if d is not None:
            data['duration'] = d
        stims.append([rng.choice(AIMS), 'put', data])
    return spec, stims


def fix_model_init(spec):
    """The model starts from the initial state the block will take (Goto initdef at init)."""
    return spec


def gen(ctx):
    quick = ctx.tier == 'quick'
    rng = ctx.rng('gen')
    n = 1600 if quick else 36000
    for i in range(n):
        r = rng.random()
        if r < 0.55:
            spec, stims = random_generic(rng)
        elif r < 0.8:
            spec, stims = random_timer(rng)
        else:
            spec, stims = random_inputexp(rng)
        case = {'spec': spec, 'stims': stims,
                'tail': rng.choice(['after', 'pending', 'pending', 'long'])}
        if rng.random() < 0.1:
            case['double_stop'] = True
        if rng.random() < 0.12:
            case['failing_stops'] = rng.randrange(1, 1000)
        if spec['kind'] in ('timer', 'inputexp') and rng.random() < 0.4:
            case['decoys'] = True
        if rng.random() < 0.1 and spec['watch']:
            spec['exit_fail'] = rng.choice(spec['watch'])
        if rng.random() < 0.12 and not case.get('failed_start'):
            tstates = [st for st, (d, _e) in spec['timers'].items()]
            if spec['kind'] == 'timer':
                tstates = ['on', 'off']
            if tstates:
                spec['persistent'] = True
                case['restore'] = {'state': rng.choice(tstates),
                                   'remaining': rng.choice([0.5, 2.0, 5.0]), 'value': 'restored'}
        if spec['kind'] == 'generic' and rng.random() < 0.25:
            spec['addon'] = rng.choice(['plain', 'stop_async', 'stop_async_disabled', 'async_init'])
        if rng.random() < 0.04:
            ev = {'generic': 'go1', 'timer': 'start', 'inputexp': 'put'}[spec['kind']]
            case['failed_start'] = [ev, {'duration': rng.choice([0.5, 3.0, '0m2s']), 'value': 'x'}]
            case['stims'] = []
        if not quick and rng.random() < 0.2 or quick and rng.random() < 0.1:
            case['latency'] = rng.choice([1e-4, 2e-3])
        yield case


def run_one(case, ctx):
    hist, state = run_case(case, ctx)
    try:
        nontrivial = judge(case, hist, state, ctx)
    except core.Violation as v:
        t0 = state.get('t0', 0)
        ctx.violation(case, v.key, v.msg, history=hist.dump(150))
        ctx.case_done(case, True)
        return
    sample = None
    if nontrivial and len(ctx.samples) < ctx.MAX_SAMPLES:
        sample = {'case': case, 'history': hist.dump(40)}
    ctx.case_done(case, nontrivial, sample)


def run_two_lives(case, ctx):
    """
    A persistent Timer leaves (or re-enters) its timed state during the CLEAN-UP of life 1 (the
    result event of an output block's stop_data); the application is then restarted from the
    storage: the timer that was cancelled must not come back - no stale timed event in life 2.
    """
    import edzed
    dur, ev = case['dur'], case['ev']
    storage = harness.Storage()
    info = {}

    def build(life, log):
        class Sink(edzed.SBlock):
            def init_regular(self):
                self.set_output(0)

            def _event(self, etype, data):
                log.append((round(asyncio.get_running_loop().time() - 1000.0, 6), etype,
                            data.get('state')))
        sink = Sink('sink')
        tmr = edzed.Timer('tmr', t_on=dur, persistent=True, restartable=True,
                          on_enter_on=edzed.Event(sink, 'enter'), on_exit_on=edzed.Event(sink, 'exit'),
                          on_enter_off=edzed.Event(sink, 'enter'))
        if life == 1:
            # (blocks with asynchronous clean-up are stopped first: the Timer is still running
            # when the result of the stop_data arrives)
            async def job(value):
                return value
            edzed.OutputAsync('oa', coro=job, mode='wait', stop_data={'value': 1}, on_error=None,
                              on_success=edzed.Event(tmr, ev), stop_timeout=5)
        return {'tmr': tmr}

    def mksetup(offset):
        def setup(loop):
            vclock.install(vclock.VClock(loop, BASE + _dt.timedelta(seconds=offset)))
        return setup

    log1, log2 = [], []

    async def drive1(sim, objs):
        edzed.ExtEvent(objs['tmr'], 'start').send()
        await asyncio.sleep(case['run'])
        info['state_before_stop'] = objs['tmr'].state
        return True
    try:
        out1 = harness.run_sim(lambda: build(1, log1), drive1, storage=storage, setup=mksetup(0.0))
    finally:
        vclock.uninstall()
    where = f"two lives {case}"
    if out1['exc'] is not None or not out1['started']:
        raise core.Violation('harness-run-exception', f"{where}: life 1: {out1['exc']!r}")
    final_state = out1['objs']['tmr'].state
    t_end1 = out1['loop'].after_main['vt'] - 1000.0      # = when the clean-up event arrived
    ctx.count('two_life_cases')
    if info['state_before_stop'] != 'on':
        raise core.Inconclusive(f"C04: {where}: the timer was not running at the stop")
    downtime = case['down']

    async def drive2(sim, objs):
        info['state2'] = objs['tmr'].state
        await asyncio.sleep(3 * dur)
        info['state2_late'] = objs['tmr'].state
        return True
    try:
        out2 = harness.run_sim(lambda: build(2, log2), drive2, storage=storage,
                               setup=mksetup(t_end1 + downtime))
    finally:
        vclock.uninstall()
    if out2['exc'] is not None or not out2['started']:
        raise core.Violation('harness-run-exception', f"{where}: life 2: {out2['exc']!r}")
    exits = [e for e in log2 if e[1] == 'exit']
    if ev == 'stop':
        # left the timed state during the clean-up: off, and it stays off
        if final_state != 'off':
            raise core.Inconclusive(f"C04: {where}: life 1 ended in {final_state!r}")
        if info['state2'] != 'off' or exits:
            raise core.Violation(
                'stale-timed-event',
                f"{where}: the Timer was switched off during the clean-up of life 1 (its timer "
                f"cancelled); after the restart it is {info['state2']!r} and left 'on' at "
                f"{[e[0] for e in exits]} (life-2 loop time): a stale timed event")
    else:
        # re-entered during the clean-up: the new timer (from that moment) is the pending one
        left = dur - downtime
        if left > 0.2:
            if info['state2'] != 'on' or len(exits) != 1 or abs(exits[0][0] - left) > 5e-3:
                raise core.Violation(
                    'timed-event-late' if exits else 'timed-event-missed',
                    f"{where}: re-entered 'on' at the end of life 1 (+{t_end1:.3f} s), restart "
                    f"{downtime} s later: expected 'on' expiring {left:.3f} s into life 2; "
                    f"state {info['state2']!r}, exits {exits}")
    ctx.count('timers_fired_on_time')


def run_shard(ctx):
    for case in gen(ctx):
        run_one(case, ctx)
    idx = 0
    for ev in ('stop', 'start'):
        for dur in (5.0, 12.0):
            for run in (1.0, 3.5):
                for down in (0.5, 2.0):
                    idx += 1
                    if idx % ctx.nshards != ctx.shard:
                        continue
                    case = {'two_lives': True, 'ev': ev, 'dur': dur, 'run': run, 'down': down}
                    try:
                        run_two_lives(case, ctx)
                    except core.Violation as v:
                        ctx.violation(case, v.key, v.msg)
                    ctx.case_done(case, True)


def replay(rep, ctx):
    if rep['case'].get('two_lives'):
        try:
            run_two_lives(rep['case'], ctx)
        except core.Violation as v:
            ctx.violation(rep['case'], v.key, v.msg)
        ctx.case_done(rep['case'], True)
        return
    run_one(rep['case'], ctx)
