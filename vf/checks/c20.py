"""
C20 - Counter arithmetic is exact and stays within the modulo range.

History + reference accumulator.  Many Counter blocks (one per event sequence) live in one
real simulation and are driven through ExtEvent.send().
"""

import itertools

from .. import core, harness, vloop

PROP = 'C20'
TECHNIQUE = ('runtime monitoring: reference accumulator compared with Counter outputs and return values over exhaustive short and random long event sequences')
LEVEL = 'exploration'
RULE = ("case = (modulo, initdef, event sequence [, stored persistent value]); exhaustive over all "
        "sequences up to length L of a fixed operation alphabet (enumerated, distinct by "
        "construction) plus seeded random long sequences with big/negative ints and floats; every "
        "event's return value and the counter's output after every event are compared with the "
        "reference accumulator; non-trivial = at least one event was delivered and compared")
ASSUMPTIONS = [
    "reference accumulator: v' = op(v, amount) reduced with Python's % after every step when "
    "modulo M > 0; initdef, restored and reset values reduced as well",
    "floats compared with 1e-9 relative tolerance (also at the upper end of the range: a float "
    "result equal to M itself is Python's rounding of a tiny negative operand), ints exactly",
    "events delivered with ExtEvent.send() into a running simulation on the virtual loop",
]
REQUIRED = {'events_compared': 1000, 'put_without_value_checked': 5, 'modulo_zero_refused': 1,
            'restore_checked': 5, 'range_checks': 500}
SHARDS = {'quick': 8, 'thorough': 16}
TIMEOUT = {'quick': 300, 'thorough': 3000}

AMOUNTS = (-3, -1, 1, 2, 7)
OPS_FULL = ([('inc', a) for a in AMOUNTS] + [('dec', a) for a in AMOUNTS]
            + [('inc', None), ('dec', None), ('reset', None), ('put', 12), ('put', -4)])
OPS_SMALL = [('inc', a) for a in AMOUNTS] + [('reset', None), ('put', 12)]
MODULOS = (None, 1, 2, 7, 10, 2.5)


HUGE = 10 ** 5000       # more decimal digits than CPython converts to text by default (4300)


def dec(x):
    """Decode symbolic numbers of a case ('HUGE', '-HUGE', 'HUGE+7')."""
    if isinstance(x, str):
        return {'HUGE': HUGE, '-HUGE': -HUGE, 'HUGE+7': HUGE + 7}[x]
    return x


def sr(x):
    """repr() that survives integers beyond the int->str conversion limit."""
    try:
        return repr(x)
    except ValueError:
        return f"<int with {x.bit_length()} bits>"


def ref_reduce(v, mod):
    return v if mod is None else v % mod


def ref_apply(v, op, arg, mod, initdef):
    if op == 'inc':
        v = v + (1 if arg is None else arg)
    elif op == 'dec':
        v = v - (1 if arg is None else arg)
    elif op == 'put':
        v = arg
    elif op == 'reset':
        v = initdef
    return ref_reduce(v, mod)


def same(a, b, mod=None):
    if isinstance(a, bool) or isinstance(b, bool):
        return a == b
    if isinstance(a, float) or isinstance(b, float):
        try:
            diff = abs(a - b)
            if mod:
                diff = min(diff, abs(mod - diff))   # 0 and M-epsilon are neighbours
            return diff <= 1e-9 * max(1.0, abs(a), abs(b))
        except TypeError:
            return False
    return a == b


def enum_cases(ctx):
    quick = ctx.tier == 'quick'
    plans = []
    if quick:
        plans.append((OPS_FULL, 3, (None, 7, 10)))
        plans.append((OPS_SMALL, 5, (7,)))
    else:
        plans.append((OPS_FULL, 5, MODULOS))
        plans.append((OPS_SMALL, 8, (None, 7)))
    idx = 0
    for ops, maxlen, mods in plans:
        for mod in mods:
            for initdef in ((0, 9) if mod is not None else (0,)):
                for length in range(1, maxlen + 1):
                    for seq in itertools.product(range(len(ops)), repeat=length):
                        idx += 1
                        if idx % ctx.nshards != ctx.shard:
                            continue
                        yield {'mod': mod, 'initdef': initdef,
                               'seq': [list(ops[i]) for i in seq], 'enum': True}


def random_cases(ctx):
    rng = ctx.rng('rnd')
    n = 900 if ctx.tier == 'quick' else 40000
    for _ in range(n):
        mod = rng.choice(MODULOS + (3, 1000003, 0.1))
        floats = rng.random() < 0.3 or isinstance(mod, float)
        def num():
            r = rng.random()
            if floats and r < 0.5:
                return round(rng.uniform(-100, 100), rng.randrange(0, 4))
            if r < 0.7 or floats:
                # (no huge ints in float mode: an output that compares equal is not replaced,
                # so 5 may stay 5 after put(5.0) and int/float arithmetic beyond 2**53 differs)
                return rng.randrange(-20, 21)
            return rng.choice([10 ** 18, -10 ** 18, 2 ** 64 + 1, -(2 ** 63), 10 ** 30,
                               rng.randrange(-10 ** 12, 10 ** 12), 'HUGE', '-HUGE', 'HUGE+7'])
        initdef = num() if rng.random() < 0.7 else 0
        seq = []
        for _ in range(rng.randrange(1, 40)):
            op = rng.choice(['inc', 'dec', 'inc', 'dec', 'put', 'reset'])
            if op in ('inc', 'dec'):
                seq.append([op, None if rng.random() < 0.3 else num()])
            elif op == 'put':
                seq.append([op, num()])
            else:
                seq.append([op, None])
        case = {'mod': mod, 'initdef': initdef, 'seq': seq}
        if rng.random() < 0.3:
            case['stored'] = num()
        for _ in range(rng.choice([0, 0, 0, 1, 2, 3])):
            # insert 'put' without its value somewhere (also several times: every one of them
            # is just reported to the caller)
            case['seq'].insert(rng.randrange(len(seq) + 1),
                               [rng.choice(['put_novalue', 'cond_put_novalue']), None])
        if rng.random() < 0.2:
            case['seq'].insert(rng.randrange(len(seq) + 1), ['cond', num()])
        if rng.random() < 0.1:
            case['write_fail'] = True       # persistent, but the storage refuses its writes
        if rng.random() < 0.25:
            # the first events reach the counter while the circuit is still being initialised:
            # Inputs created before it send their on_output event when they are restored from
            # the storage (first pass: the counter has done no init step yet) or initialised
            # from their initdef (second pass: the counter has only done the restore step)
            evs = [[rng.choice(['restored', 'initdef']), rng.choice(['inc', 'dec', 'put', 'reset']),
                    rng.randrange(-20, 21)] for _ in range(rng.randrange(1, 4))]
            case['init_events'] = sorted(evs, key=lambda e: e[0] != 'restored')
        yield case


def run_batch(batch, ctx):
    """Run a batch of cases in one simulation; one Counter per case."""
    import edzed
    class FlakyStorage(harness.Storage):
        """Writes of the listed keys fail (disk full, value cannot be serialised ...)."""
        fail_keys = set()

        def __setitem__(self, key, value):
            if key in self.fail_keys:
                ctx.count('failed_storage_writes')
                raise OSError(f"vf: cannot write {key!r}")
            super().__setitem__(key, value)

    storage = FlakyStorage()
    storage.fail_keys = {f"<Counter 'c{i}'>" for i, case in enumerate(batch)
                         if case.get('write_fail')}
    for i, case in enumerate(batch):
        if 'stored' in case:
            dict.__setitem__(storage, f"<Counter 'c{i}'>", dec(case['stored']))
        for j, (timing, _op, val) in enumerate(case.get('init_events', ())):
            if timing == 'restored':
                dict.__setitem__(storage, f"<Input 't{i}x{j}'>", val)
    dict.__setitem__(storage, 'edzed-stop-time', 0.0)
    done = [False] * len(batch)
    state = {'aborted': None}

    def build():
        blocks = []
        for i, case in enumerate(batch):
            kw = {}
            if case['mod'] is not None:
                kw['modulo'] = case['mod']
            for j, (timing, op, val) in enumerate(case.get('init_events', ())):
                edzed.Input(f"t{i}x{j}", on_output=edzed.Event(f"c{i}", op),
                            **({'persistent': True} if timing == 'restored' else {'initdef': val}))
            blocks.append(edzed.Counter(
                f"c{i}", initdef=dec(case['initdef']),
                persistent='stored' in case or bool(case.get('write_fail')), **kw))
        return blocks

    async def drive(sim, blocks):
        for i, (case, blk) in enumerate(zip(batch, blocks)):
            try:
                check_one(case, blk, sim, ctx)
            except core.Violation as v:
                ctx.violation(case, v.key, v.msg)
            done[i] = True
            if not sim.alive():
                state['aborted'] = (i, repr(sim.circuit.error))
                return
        return True

    out = harness.run_sim(build, drive, storage=storage)
    if out['exc'] is not None and not isinstance(out['exc'], vloop.Deadlock):
        raise out['exc']
    if not out.get('started'):
        ctx.violation(batch[0], 'startup-failed',
                      f"a circuit of {len(batch)} Counter blocks with valid arguments did not "
                      f"start: {out['sim'].init_exc} / {out['sim'].circuit.error!r}")
        return
    for i, case in enumerate(batch):
        if done[i]:
            ctx.case_done(case, True, sample={'modulo': case['mod'], 'initdef': case['initdef'],
                                              'events': case['seq'][:12],
                                              'stored': case.get('stored', '<none>')},
                          enumerated=case.get('enum', False))
    if state['aborted'] is not None:
        i, err = state['aborted']
        ctx.violation(batch[i], 'simulation-stopped',
                      f"simulation stopped while driving a Counter: {err}")
        rest = batch[i + 1:]
        if rest:
            run_batch(rest, ctx)


def check_one(case, blk, sim, ctx):
    import edzed
    mod, initdef = case['mod'], dec(case['initdef'])
    if case.get('init_events'):
        pass        # judged below
    elif 'stored' in case:
        v = ref_reduce(dec(case['stored']), mod)
        ctx.count('restore_checked')
        if not same(blk.output, v):
            raise core.Violation(
                'restore-not-reduced',
                f"modulo={mod}: restored {case['stored']!r} gives output {blk.output!r}, "
                f"expected {v!r}")
    else:
        v = ref_reduce(initdef, mod)
        if not same(blk.output, v):
            raise core.Violation(
                'initdef-not-reduced',
                f"modulo={mod} initdef={sr(initdef)}: initial output {sr(blk.output)}, expected {sr(v)}")
    if case.get('init_events'):
        # events delivered during the initialisation: the counter had to finish its own
        # initialisation first and then to handle them like any other event
        v = ref_reduce(dec(case['stored']), mod) if 'stored' in case else ref_reduce(initdef, mod)
        for _timing, op, val in case['init_events']:
            v = ref_apply(v, op, val if op == 'put' else None, mod, initdef)
            ctx.count('events_during_initialisation')
        if not same(blk.output, v, mod):
            raise core.Violation(
                'events-during-init',
                f"modulo={mod} initdef={sr(initdef)} stored={sr(dec(case['stored'])) if 'stored' in case else '<none>'}: after "
                f"the events {case['init_events']} delivered during the circuit initialisation "
                f"the output is {sr(blk.output)}, reference {sr(v)}")
    for k, (op, arg) in enumerate(case['seq']):
        arg = dec(arg)
        if op == 'cond':
            # conditional event type: 'put' when the value is true, 'dec' otherwise
            v = ref_apply(v, 'put', arg, mod, initdef) if arg else ref_apply(v, 'dec', None, mod, initdef)
            ctx.count('conditional_events')
            try:
                ret = blk.event(edzed.EventCond('put', 'dec'), value=arg, source='vf')
            except Exception as err:    # pylint: disable=broad-except
                raise core.Violation('event-raised-cond', f"EventCond('put','dec') value={sr(arg)}: {err!r}")
            if not same(ret, v, mod) or not same(blk.output, v, mod):
                raise core.Violation(
                    'return-value-cond',
                    f"modulo={mod} event #{k} EventCond('put','dec') with value {sr(arg)}: returned "
                    f"{sr(ret)}, output {sr(blk.output)}, reference {sr(v)}")
            continue
        if op in ('put_novalue', 'cond_put_novalue'):
            ctx.count('put_without_value_checked')
            before = blk.output
            try:
                if op == 'cond_put_novalue':
                    # no 'value' item: the condition is false -> 'put', which lacks its value
                    ret = blk.event(edzed.EventCond('inc', 'put'), source='vf')
                else:
                    ret = edzed.ExtEvent(blk, 'put').send()
            except TypeError:
                pass
            except Exception as err:
                raise core.Violation(
                    'put-novalue-wrong-exception', f"'put' without value raised {err!r}")
            else:
                raise core.Violation(
                    'put-novalue-accepted', f"'put' without value returned {ret!r}")
            if not same(blk.output, before):
                raise core.Violation(
                    'put-novalue-changed', f"'put' without value changed the counter to {blk.output!r}")
            if not sim.alive():
                raise core.Violation(
                    'put-novalue-stopped-simulation',
                    f"'put' without value stopped the simulation: {sim.circuit.error!r}")
            continue
        v = ref_apply(v, op, arg, mod, initdef)
        ev = edzed.ExtEvent(blk, op)
        kw = {'source': 'panel'} if k % 3 == 1 else {}     # explicit / default event source
        try:
            if op == 'put':
                ret = ev.send(arg, **kw)
            elif arg is None and k % 4 == 2:
                # events sent by other blocks carry the sender's output as 'value' (and more):
                # for inc/dec/reset these items are just ignored
                ctx.count('events_with_foreign_value_item')
                ret = ev.send(57, previous=3, trigger='output', **kw)
            elif arg is not None and k % 5 == 3:
                # no item name is reserved: a payload forwarded as it came may contain items
                # named like parameters of the delivery path
                ctx.count('events_with_parameter_like_items')
                ret = ev.send(amount=arg, etype='x', data={'k': 1}, dest='counter', name='n', **kw)
            elif arg is None:
                ret = ev.send(**kw)
            else:
                ret = ev.send(amount=arg, **kw)
        except Exception as err:    # pylint: disable=broad-except
            raise core.Violation(
                f'event-raised-{op}',
                f"modulo={mod} initdef={sr(initdef)} event #{k} {op}({sr(arg)}) raised "
                f"{type(err).__name__}: {str(err)[:200]}")
        ctx.count('events_compared')
        if not same(ret, v, mod):
            raise core.Violation(
                f'return-value-{op}',
                f"modulo={mod} initdef={sr(initdef)} event #{k} {op}({sr(arg)}) returned {sr(ret)}, "
                f"reference {sr(v)}; sequence {case['seq'][:k + 1]}")
        if not same(blk.output, v, mod):
            raise core.Violation(
                f'output-{op}',
                f"modulo={mod} initdef={sr(initdef)} after event #{k} {op}({sr(arg)}) output is "
                f"{sr(blk.output)}, reference {sr(v)}; sequence {case['seq'][:k + 1]}")
        if mod is not None and mod > 0:
            ctx.count('range_checks')
            def in_range(x):
                # float arithmetic: Python's % may return exactly M for a tiny negative
                # operand (-1e-15 % M == M); that is a rounding artefact of [0, M), not an
                # escape from the range - judged with the same 1e-9 tolerance as the values
                if 0 <= x < mod:
                    return True
                return isinstance(x, float) and abs(x - mod) <= 1e-9 * mod
            if not in_range(blk.output) or not in_range(ret):
                raise core.Violation(
                    'out-of-range', f"output {blk.output!r} outside [0, {mod})")


def ctor_checks(ctx):
    import edzed
    for zero in (0, 0.0, False):
        edzed.reset_circuit()
        case = {'ctor_modulo': repr(zero)}
        try:
            edzed.Counter('z', modulo=zero)
        except ValueError:
            ctx.count('modulo_zero_refused')
        except Exception as err:
            ctx.violation(case, 'modulo-zero-wrong-exception', f"Counter(modulo={zero!r}) raised {err!r}")
        else:
            ctx.violation(case, 'modulo-zero-accepted', f"Counter(modulo={zero!r}) accepted")
        ctx.case_done(case, True)
    edzed.reset_circuit()


def run_cases(cases, ctx, bsize=400):
    batch = []
    for case in cases:
        batch.append(case)
        if len(batch) >= bsize:
            run_batch(batch, ctx)
            batch = []
    if batch:
        run_batch(batch, ctx)


def run_shard(ctx):
    if ctx.shard == 0:
        ctor_checks(ctx)
    run_cases(random_cases(ctx), ctx, bsize=100)
    run_cases(enum_cases(ctx), ctx)
    ctx.exhaustive = True


def coverage_extra(tier, counters, sets):
    return {'exhaustive_slice': (
        "all sequences up to length 3 (15-op alphabet, modulo None/7/10) and up to length 5 "
        "(7-op alphabet, modulo 7)" if tier == 'quick' else
        "all sequences up to length 5 (15-op alphabet, all 6 modulos x initdef in/out of range) "
        "and up to length 8 (7-op alphabet incl. amounts {-3,-1,1,2,7}, modulo None/7)")}


def replay(rep, ctx):
    if 'ctor_modulo' in rep['case']:
        ctor_checks(ctx)
    else:
        run_batch([rep['case']], ctx)
