"""
C07 - TimeDate and TimeSpan outputs follow the wall clock.

Sampling monitor on the virtual wall clock with the real Cron._maintask: block outputs are
sampled before/after every configured boundary and mid-range and compared with a calendar
predicate computed from the generator's integers (reference functions shared with C13).
Start and 'reconfig' instants are placed on a sub-millisecond grid around boundaries of the same
and of other blocks; the clock model charges every clock read and delays every loop wake-up;
the wall clock is moved by fault injection (jumps).
"""

import asyncio
import datetime as _dt

from .. import core, harness, vclock, vloop
from . import c13

PROP = 'C07'
TECHNIQUE = ('runtime monitoring: block outputs sampled around every boundary on a virtual wall clock (clock-read cost, wake-up latency, clock jumps) and compared with an integer calendar predicate; real Cron task')
LEVEL = 'exploration'
RULE = ("case = (1..5 TimeDate/TimeSpan blocks, local (UTC+2h) and UTC schedulers mixed; times / "
        "dates / weekdays / spans generated as integers (wrapping and non-wrapping ranges, equal "
        "endpoints, microsecond endpoints, empty sets, None, Feb 29, Dec 31 -> Jan 1, spans in "
        "the past / future / around now) and rendered into random notations; start instant "
        "random or on a grid of -2 ms .. +1 ms around a boundary of one of the blocks; run of "
        "0.2 .. 4 virtual days; 'reconfig' events at instants on the same grid around boundaries "
        "of the same or another block; forward clock jumps of 30 s .. 1 h (and backward ones) at "
        "arbitrary instants incl. just before a boundary; clock model: every clock read costs "
        "0..80 us, every wake-up of the loop is 0..2 ms late); outputs sampled at boundary -/+ w "
        "(w = latency + 3 ms), mid-range and random instants; non-trivial = at least one block "
        "changed its output at a boundary that the scheduler had to announce, and was sampled "
        "on both sides")
ASSUMPTIONS = [
    "calendar predicate: TimeDate = configured and time-of-day in times (ranges [start, stop), "
    "wrapping, equal endpoints = whole day) and (month, day) in dates (inclusive, wrapping) and "
    "ISO weekday in weekdays (0 = 7); an empty set gives False; TimeSpan = now in [start, stop)",
    "'a few milliseconds' = samples closer than injected latency + 1.5 ms to a boundary of the "
    "block's current configuration (incl. midnight for TimeDate) are not judged",
    "local time = UTC + 2 h fixed (no DST; a DST change is a clock jump)",
    "after a forward jump samples are judged again from one hour after the jump; after a "
    "backward jump only 'the simulation is still running' is judged",
    "the clock reads of the harness itself are free (peek)",
]
REQUIRED = {'samples_judged': 20000, 'boundary_pairs_observed': 500, 'midnight_crossings': 100,
            'aimed_starts': 50, 'aimed_reconfigs': 50, 'forward_jumps': 30, 'backward_jumps': 10,
            'judged_after_jump': 200, 'utc_blocks': 100, 'local_blocks': 100,
            'timespan_blocks': 100, 'year_end_runs': 5, 'feb29_runs': 5}
SHARDS = {'quick': 16, 'thorough': 16}
TIMEOUT = {'quick': 600, 'thorough': 3600}

EPOCH = _dt.datetime(1970, 1, 1)
LOCAL = vclock.LOCAL_OFFSET
GRID_US = [-2000, -1000, -500, -200, -150, -100, -60, -30, -10, 0, 10, 50, 200, 1000]
DAY = 86400.0


class SchedulerBusyLoop(Exception):
    pass


def to_wall(dtm):
    return (dtm - EPOCH).total_seconds()


def frame_now(utc_dt, utc):
    return utc_dt if utc else utc_dt + LOCAL


def td_expected(cfg, now):
    t, d, w = cfg.get('times'), cfg.get('dates'), cfg.get('weekdays')
    if t is None and d is None and w is None:
        return False
    if t is not None and not c13.ref_time(t, (now.hour, now.minute, now.second, now.microsecond)):
        return False
    if d is not None and not c13.ref_date(d, (now.month, now.day)):
        return False
    if w is not None and now.isoweekday() not in {7 if x == 0 else x for x in w}:
        return False
    return True


def ts_expected(cfg, now):
    return c13.ref_datetime(cfg['span'], (now.year, now.month, now.day, now.hour, now.minute,
                                          now.second, now.microsecond))


def expected(blk, now_frame):
    return td_expected(blk['cur'], now_frame) if blk['kind'] == 'td' else ts_expected(blk['cur'], now_frame)


def tod_boundaries(blk, cfg):
    """time-of-day boundaries (seconds since midnight, frame time) of a TimeDate config."""
    out = {0.0}
    for a, b in cfg.get('times') or ():
        for x in (a, b):
            out.add(c13.t_us(x) / 1e6)
    return out


def ts_boundaries(cfg):
    """absolute boundaries (frame datetimes) of a TimeSpan config."""
    out = []
    for a, b in cfg['span']:
        for x in (a, b):
            out.append(_dt.datetime(*x))
    return out


def near_boundary(blk, now_frame, excl):
    if blk['kind'] == 'td':
        sec = (now_frame - now_frame.replace(hour=0, minute=0, second=0, microsecond=0)).total_seconds()
        for b in tod_boundaries(blk, blk['cur']):
            d = abs(sec - b)
            if min(d, DAY - d) < excl:
                return True
        return False
    for b in ts_boundaries(blk['cur']):
        if abs((now_frame - b).total_seconds()) < excl:
            return True
    return False


def render_cfg(rng, kind, cfg):
    if kind == 'ts':
        return {'span': c13.render_interval(rng, 'datetime', cfg['span'])}
    out = {}
    if cfg.get('times') is not None:
        out['times'] = c13.render_interval(rng, 'time', cfg['times'])
    if cfg.get('dates') is not None:
        out['dates'] = c13.render_interval(rng, 'date', cfg['dates'])
    if cfg.get('weekdays') is not None:
        w = cfg['weekdays']
        out['weekdays'] = ''.join(str(x) for x in w) if rng.random() < 0.5 else list(w)
    return out


def run_case(case, ctx):
    import edzed
    hist = core.History()
    rng = ctx.rng('render', core.case_hash(case))
    start = _dt.datetime(*case['start'])
    lat = case.get('lat', 0.0)
    rcost = case.get('rcost', 0.0)
    w = lat + 3e-3
    excl = lat + 1.5e-3
    res = {'mismatch': None, 'judged': 0, 'pairs': 0}
    blocks = [dict(b, cur=b['cfg']) for b in case['blocks']]
    holder = {}

    def build():
        for i, b in enumerate(blocks):
            kw = render_cfg(rng, b['kind'], b['cfg'])
            cls = edzed.TimeDate if b['kind'] == 'td' else edzed.TimeSpan
            events = []
            for link in case.get('links', ()):
                if link['from'] != i:
                    continue
                # every output change of this block reconfigures another block (from inside the
                # scheduler's recalculation when the change happens at a boundary)
                dst = blocks[link['to']]
                lkw = render_cfg(rng, dst['kind'], link['cfg'])
                if dst['kind'] == 'td':
                    lkw = {'times': None, 'dates': None, 'weekdays': None, **lkw}

                def flt(data, dst=dst, link=link, lkw=lkw):
                    if dst['cur'] is not link['cfg']:
                        ctx.count('linked_reconfigs')
                    dst['cur'] = link['cfg']
                    return dict(lkw)
                events.append(edzed.Event(f"blk{link['to']}", 'reconfig',
                                          efilter=(edzed.not_from_undef, flt)))
            b['obj'] = cls(f"blk{i}", utc=b['utc'], on_output=events or None, **kw)
            b['rendered'] = kw
        return blocks

    # ---- agenda (wall instants, UTC epoch seconds) ----
    t_start = to_wall(start)
    t_end = t_start + case['days'] * DAY
    agenda = []
    for op in case['ops']:
        agenda.append((t_start + op[0], 0, 'op', op))
    bounds = set()
    cfgs_of = {i: [b['cfg']] for i, b in enumerate(blocks)}
    for op in case['ops']:
        if op[1] == 'reconfig':
            cfgs_of[op[2]].append(op[3])
    for link in case.get('links', ()):
        cfgs_of[link['to']].append(link['cfg'])
    for i, b in enumerate(blocks):
        off = 0.0 if b['utc'] else LOCAL.total_seconds()
        for cfg in cfgs_of[i]:
            if b['kind'] == 'td':
                day0 = to_wall(start.replace(hour=0, minute=0, second=0, microsecond=0)) - DAY
                for k in range(int(case['days']) + 3):
                    for tod in tod_boundaries(b, cfg):
                        bounds.add(day0 + k * DAY + tod - off)
            else:
                for x in ts_boundaries(cfg):
                    bounds.add(to_wall(x) - off)
    bounds = sorted(x for x in bounds if t_start - 1 < x < t_end + 1)
    samples = set()
    for x in bounds:
        samples.add(x - w)
        samples.add(x + w)
    for a, b2 in zip(bounds, bounds[1:]):
        if b2 - a > 4 * w:
            samples.add((a + b2) / 2)
    for op in case['ops']:
        samples.add(t_start + op[0] + 0.25)
        if op[1] == 'jump' and op[2] > 0:
            samples.add(t_start + op[0] + op[2] + 3600.0 + 0.5)
            samples.add(t_start + op[0] + op[2] + 3700.0)
    samples.add(t_start + 0.05)
    samples = sorted(x for x in samples if t_start + 0.02 < x < t_end)
    srng = ctx.rng('samples', core.case_hash(case))
    if len(samples) > case.get('maxsamples', 300):
        keep = set(srng.sample(samples, case.get('maxsamples', 300)))
        # always keep the samples right after the start and around operations
        hot = [t_start] + [t_start + op[0] for op in case['ops']]
        for x in samples:
            if any(0 <= x - h < 4000 for h in hot[:6]) and len(keep) < 500:
                keep.add(x)
        samples = sorted(keep)
    for x in samples:
        agenda.append((x, 1, 'sample', None))
    agenda.sort(key=lambda a: (a[0], a[1]))

    async def drive(sim, blks):
        clock = holder['clock']
        no_judge_until = -1.0
        aliveonly = False
        prev = {}
        for when, _prio, kind, payload in agenda:
            now = clock.peek_time()
            if when > now:
                await asyncio.sleep(when - now)
            elif kind == 'sample' and now - when > 0.5:
                continue        # passed over by a forward jump
            if not sim.alive():
                res['died'] = repr(sim.circuit.error)
                return
            now = clock.peek_time()
            if kind == 'op':
                if payload[1] == 'jump':
                    clock.jump += payload[2]
                    hist.log('jump', payload[2])
                    if payload[2] > 0:
                        ctx.count('forward_jumps')
                        no_judge_until = max(no_judge_until, clock.peek_time() + 3600.0 + w)
                    else:
                        ctx.count('backward_jumps')
                        aliveonly = True
                else:
                    blk = blks[payload[2]]
                    kw = render_cfg(rng, blk['kind'], payload[3])
                    if blk['kind'] == 'td':
                        kw = {'times': None, 'dates': None, 'weekdays': None, **kw}
                    hist.log('reconfig', payload[2], kw)
                    edzed.ExtEvent(blk['obj'], 'reconfig').send(**kw)
                    blk['cur'] = payload[3]
                    prev.pop(payload[2], None)
                continue
            if aliveonly:
                continue
            utc_now = EPOCH + _dt.timedelta(seconds=now)
            judged_after_jump = no_judge_until > 0 and now >= no_judge_until
            if now < no_judge_until:
                continue
            for i, blk in enumerate(blks):
                fnow = frame_now(utc_now, blk['utc'])
                if near_boundary(blk, fnow, excl):
                    continue
                exp = expected(blk, fnow)
                got = blk['obj'].output
                res['judged'] += 1
                if judged_after_jump:
                    ctx.count('judged_after_jump')
                if i in prev and prev[i] != exp:
                    res['pairs'] += 1
                prev[i] = exp
                if got != exp and res['mismatch'] is None:
                    res['mismatch'] = {
                        'block': i, 'kind': blk['kind'], 'utc': blk['utc'], 'cfg': blk['cur'],
                        'rendered': blk['rendered'], 'frame_time': str(fnow), 'expected': exp,
                        'got': got, 'since_start': now - t_start,
                        'after_jump': judged_after_jump}
                    return
        res['completed'] = True

    def setup(loop):
        hist.loop = loop
        crng = ctx.rng('clock', core.case_hash(case))
        guard = {'jumps': -1, 'reads': 0}

        def cost():
            # logical-step watchdog: thousands of clock reads without the loop ever sleeping
            # = the scheduler spins (decided on steps, not on wall time)
            if loop.jumps != guard['jumps']:
                guard['jumps'], guard['reads'] = loop.jumps, 0
            guard['reads'] += 1
            if guard['reads'] > 20000:
                raise SchedulerBusyLoop("20000 clock reads without a single sleep of the event loop")
            return crng.random() * rcost if rcost else 1e-6
        holder['clock'] = vclock.install(vclock.VClock(loop, start, read_cost=cost))
        if lat:
            lrng = ctx.rng('lat', core.case_hash(case))
            loop.latency = lambda: lrng.random() * lat

    try:
        out = harness.run_sim(build, drive, setup=setup)
    finally:
        vclock.uninstall()
    res['started'] = out['started']
    res['exc'] = out['exc']
    res['error'] = out['sim'].circuit.error if 'sim' in out else None
    res['init_exc'] = out['sim'].init_exc if 'sim' in out else None
    return hist, res


def judge(case, hist, res, ctx):
    where = (f"start={case['start']} days={case['days']} lat={case.get('lat')} rcost={case.get('rcost')} "
             f"aim={case.get('aim')} ops={[(round(o[0], 6),) + tuple(o[1:3]) for o in case['ops']]}")
    if res['exc'] is not None:
        raise core.Violation('harness-run-exception', f"{where}: {res['exc']!r}")
    if not res['started']:
        raise core.Violation('start-failed', f"{where}: {res['error']!r} blocks={case['blocks']}")
    if 'died' in res:
        jumped = any(o[1] == 'jump' for o in case['ops'])
        if 'SchedulerBusyLoop' in res['died']:
            raise core.Violation('scheduler-busy-loop', f"{where}: {res['died']} blocks={case['blocks']}")
        raise core.Violation('simulation-ended-after-clock-jump' if jumped else 'simulation-ended',
                             f"{where}: {res['died']} blocks={case['blocks']}")
    if res['mismatch'] is not None:
        m = res['mismatch']
        key = 'output-wrong-one-hour-after-forward-jump' if m['after_jump'] else 'output-differs-from-calendar'
        raise core.Violation(key, f"{where}: {m}")
    ctx.count('samples_judged', res['judged'])
    ctx.count('boundary_pairs_observed', res['pairs'])
    start = _dt.datetime(*case['start'])
    ctx.count('midnight_crossings', int(case['days']))
    if case.get('aim') == 'start':
        ctx.count('aimed_starts')
    ctx.count('aimed_reconfigs', sum(1 for o in case['ops'] if o[1] == 'reconfig' and len(o) > 4 and o[4]))
    for b in case['blocks']:
        ctx.count('utc_blocks' if b['utc'] else 'local_blocks')
        if b['kind'] == 'ts':
            ctx.count('timespan_blocks')
    end = start + _dt.timedelta(days=case['days'])
    if start.year != end.year:
        ctx.count('year_end_runs')
    if start <= _dt.datetime(start.year, 3, 1) <= end and start.year % 4 == 0:
        ctx.count('feb29_runs')
    return res['pairs'] > 0


# --------------------------------------------------------------------------------------------

POOL = []      # per-case pool of times of day shared by the blocks (set by random_case)


def g_tod(rng):
    if POOL and rng.random() < 0.45:
        return rng.choice(POOL)
    r = rng.random()
    if r < 0.55:
        return (rng.randrange(24), rng.choice([0, 15, 30, 45]), 0, 0)
    if r < 0.7:
        return rng.choice([(0, 0, 0, 0), (23, 59, 59, 999999), (12, 0, 0, 0), (0, 0, 0, 1)])
    if r < 0.85:
        return (rng.randrange(24), rng.randrange(60), rng.randrange(60), 0)
    return (rng.randrange(24), rng.randrange(60), rng.randrange(60), rng.randrange(1_000_000))


def g_td_cfg(rng, start):
    cfg = {}
    r = rng.random()
    if r < 0.75:
        n = rng.choice([0, 1, 1, 2, 3]) if rng.random() < 0.9 else 0
        ranges = []
        for _ in range(n):
            a, b = g_tod(rng), g_tod(rng)
            if rng.random() < 0.08:
                b = a
            ranges.append([list(a), list(b)])
        cfg['times'] = ranges
    if rng.random() < 0.4:
        ranges = []
        for _ in range(rng.choice([0, 1, 1, 2])):
            base = start + _dt.timedelta(days=rng.randint(-3, 3))
            a = (base.month, base.day)
            if rng.random() < 0.4:
                b = a
            else:
                e = base + _dt.timedelta(days=rng.randint(0, 4))
                b = (e.month, e.day)
            if rng.random() < 0.15:
                a, b = b, a     # wrapping around the year
            if rng.random() < 0.1:
                a, b = rng.choice([((12, 31), (1, 1)), ((2, 29), (2, 29)), ((2, 28), (3, 1))])
            ranges.append([list(a), list(b)])
        cfg['dates'] = ranges
    if rng.random() < 0.35:
        k = rng.choice([0, 1, 2, 3, 5, 7])
        cfg['weekdays'] = sorted(rng.sample([0, 1, 2, 3, 4, 5, 6, 7], k))
    return cfg


def g_ts_cfg(rng, start, only_past=False):
    ranges = []
    for _ in range(rng.choice([0, 1, 1, 2, 3])):
        if only_past or rng.random() < 0.15:
            a = start - _dt.timedelta(days=rng.randint(2, 400), seconds=rng.randrange(86400))
            b = a + _dt.timedelta(seconds=rng.randrange(60, 86400))
        elif rng.random() < 0.15:
            a = start + _dt.timedelta(days=rng.randint(30, 400))
            b = a + _dt.timedelta(hours=rng.randint(1, 100))
        else:
            a = start + _dt.timedelta(seconds=rng.choice([-7200, -60, 30, 600, 3600, 40000, 90000]),
                                      microseconds=rng.choice([0, 0, 0, 250000, 1]))
            a = a.replace(second=a.second if rng.random() < 0.5 else 0)
            if POOL and rng.random() < 0.6:
                h, m, sec, us = rng.choice(POOL)
                a = a.replace(hour=h, minute=m, second=sec, microsecond=us)
                if rng.random() < 0.5:
                    # start and stop at the same time of day (whole days long)
                    b = a + _dt.timedelta(days=rng.choice([1, 2]))
                    ranges.append([[a.year, a.month, a.day, a.hour, a.minute, a.second, a.microsecond],
                                   [b.year, b.month, b.day, b.hour, b.minute, b.second, b.microsecond]])
                    continue
            b = a + _dt.timedelta(seconds=rng.choice([45, 900, 3600, 30000, 100000, 200000,
                                                      86400, 172800]))
        r = rng.random()
        if r < 0.06:
            a, b = b, a     # stop before start: date-time ranges never wrap, never active
        elif r < 0.1:
            b = a           # empty range
        ranges.append([[a.year, a.month, a.day, a.hour, a.minute, a.second, a.microsecond],
                       [b.year, b.month, b.day, b.hour, b.minute, b.second, b.microsecond]])
    return {'span': ranges}


SPECIAL_STARTS = [(2023, 12, 30, 20, 0), (2023, 12, 31, 23, 50), (2024, 2, 27, 12, 0),
                  (2024, 2, 28, 23, 59), (2023, 2, 28, 18, 0), (2024, 12, 31, 21, 0)]


def block_boundaries_utc(blk, start, days):
    """UTC wall instants of the block's boundaries during the run."""
    off = 0.0 if blk['utc'] else LOCAL.total_seconds()
    out = []
    if blk['kind'] == 'td':
        day0 = to_wall(start.replace(hour=0, minute=0, second=0, microsecond=0)) - DAY
        for k in range(int(days) + 3):
            for tod in tod_boundaries(blk, blk['cfg']):
                out.append(day0 + k * DAY + tod - off)
    else:
        for x in ts_boundaries(blk['cfg']):
            out.append(to_wall(x) - off)
    t0 = to_wall(start)
    return [x for x in out if t0 - 1 < x < t0 + days * DAY]


def random_case(rng, quick):
    r = rng.random()
    if r < 0.2:
        start = _dt.datetime(*rng.choice(SPECIAL_STARTS)) + _dt.timedelta(seconds=rng.randrange(600))
    else:
        start = _dt.datetime(rng.choice([2023, 2024, 2025]), rng.randint(1, 12), rng.randint(1, 28),
                             rng.randrange(24), rng.randrange(60), rng.randrange(60),
                             rng.choice([0, rng.randrange(1_000_000)]))
    days = rng.choice([0.2, 0.6, 1.2, 1.2, 2.1, 3.3] if quick else [0.3, 1.2, 2.1, 3.3, 4.0])
    nblocks = rng.choice([1, 1, 2, 3, 5])
    POOL[:] = []
    if rng.random() < 0.6:
        POOL[:] = [g_tod(rng) for _ in range(rng.choice([1, 2, 3]))]
    blocks = []
    for _ in range(nblocks):
        utc = rng.random() < 0.4
        if rng.random() < 0.65:
            fstart = start if utc else start + LOCAL
            blocks.append({'kind': 'td', 'utc': utc, 'cfg': g_td_cfg(rng, fstart)})
        else:
            fstart = start if utc else start + LOCAL
            blocks.append({'kind': 'ts', 'utc': utc,
                           'cfg': g_ts_cfg(rng, fstart, only_past=rng.random() < 0.12)})
    case = {'blocks': blocks, 'days': days,
            'lat': rng.choice([0.0, 2e-4, 2e-3, 2e-3]), 'rcost': rng.choice([0.0, 2e-5, 8e-5, 8e-5])}
    # aimed start: move the start onto the grid around a boundary of one block
    r = rng.random()
    if r < 0.45:
        cands = []
        for b in blocks:
            cands.extend(x for x in block_boundaries_utc(b, start, 1.0))
        cands = [x for x in cands if x > to_wall(start) + 1]
        if cands:
            b = rng.choice(cands)
            start = EPOCH + _dt.timedelta(seconds=b) + _dt.timedelta(microseconds=rng.choice(GRID_US))
            case['aim'] = 'start'
    case['start'] = [start.year, start.month, start.day, start.hour, start.minute, start.second,
                     start.microsecond]
    ops = []
    nops = rng.choice([0, 0, 1, 1, 2, 3])
    for _ in range(nops):
        r = rng.random()
        if r < 0.6:
            i = rng.randrange(nblocks)
            blk = blocks[i]
            fstart = start if blk['utc'] else start + LOCAL
            new = g_td_cfg(rng, fstart) if blk['kind'] == 'td' else g_ts_cfg(rng, fstart)
            if blk['kind'] != 'td' and blk['cfg'].get('span') and rng.random() < 0.4:
                # the same span(s) moved by whole days: new endpoints at the very times of day
                # of the old ones, some of which lie in the past
                shift = _dt.timedelta(days=rng.choice([1, 1, 2, -1]))

                def moved(p):
                    d = _dt.datetime(*p) + shift
                    return [d.year, d.month, d.day, d.hour, d.minute, d.second, d.microsecond]
                new = {'span': [[moved(a), moved(b)] for a, b in blk['cfg']['span']]}
            if blk['kind'] == 'td' and blk['cfg'].get('times') and rng.random() < 0.3:
                # the same endpoint values paired differently (a..b -> b..a: the complement;
                # a..b, c..d -> b..c, d..a): the set of wake-up times does not change at all
                old = [list(r) for r in blk['cfg']['times']]
                pts = [p for r in old for p in r]
                rot = pts[1:] + pts[:1]
                new = dict(blk['cfg'], times=[[rot[k], rot[k + 1]] for k in range(0, len(rot), 2)])
            aimed = False
            t = rng.uniform(1.0, days * DAY * 0.8)
            if rng.random() < 0.6:
                cands = []
                for b in blocks:
                    cands.extend(block_boundaries_utc(b, start, days))
                cands.extend(block_boundaries_utc(dict(blk, cfg=new), start, days))
                cands = [x - to_wall(start) for x in cands if x - to_wall(start) > 1.0]
                if cands:
                    t = rng.choice(cands) + rng.choice(GRID_US) / 1e6
                    aimed = True
            ops.append([t, 'reconfig', i, new, aimed])
        elif r < 0.9:
            t = rng.uniform(5.0, days * DAY * 0.6)
            if rng.random() < 0.4:
                cands = []
                for b in blocks:
                    cands.extend(block_boundaries_utc(b, start, days))
                cands = [x - to_wall(start) for x in cands if x - to_wall(start) > 10.0]
                if cands:
                    t = rng.choice(cands) - rng.choice([0.00002, 0.00004, 0.001, 0.5, 20.0])
            ops.append([t, 'jump', rng.choice([30.0, 100.0, 600.0, 1800.0, 3600.0])])
        else:
            ops.append([rng.uniform(5.0, days * DAY * 0.6), 'jump', -rng.choice([30.0, 600.0, 3600.0])])
    if rng.random() < 0.3:
        # a forward jump sized so that the scheduler's next wake-up (where it notices the jump
        # and resets itself) lands some microseconds before a boundary of one of its blocks
        t0 = to_wall(start)
        tj = rng.uniform(3.0, 40.0)
        target = rng.choice(blocks)
        same = [b for b in blocks if b['utc'] == target['utc']]
        entries = [t0 - (t0 % 3600.0) + 3600.0 * k for k in range(1, 30)]
        for b in same:
            entries.extend(block_boundaries_utc(b, start, days))
        later = sorted(x for x in entries if x > t0 + tj + 2.0)
        if later:
            w_old = later[0]
            cands = [x for b in same for x in block_boundaries_utc(b, start, days + 1)
                     if 30.0 < x - w_old < 3600.0]
            if cands:
                bnd = rng.choice(cands)
                delta = rng.choice([10, 20, 30, 40, 60, 100, 200, 500]) * 1e-6
                ops = [o for o in ops if o[1] != 'jump']    # one jump per case: this one
                ops.append([tj, 'jump', (bnd - w_old) + 1e-3 - delta])
                case['lat'] = 0.0
                case['aim'] = 'reset'
    if rng.random() < 0.1 and not any(o[1] == 'jump' for o in ops) and days >= 0.6:
        # a forward jump, and - after the settling hour - a reconfiguration that introduces a
        # boundary only 20 s .. 5 min ahead (the scheduler must be woken up by the reload)
        jump = rng.choice([600.0, 1800.0, 3600.0])
        tj = rng.uniform(30.0, 3000.0)
        i = rng.randrange(nblocks)
        blk = blocks[i]
        if blk['kind'] == 'td':
            tr = tj + jump + rng.uniform(3700.0, 9000.0)
            ahead = rng.choice([20.0, 45.0, 120.0, 300.0])
            off = 0.0 if blk['utc'] else LOCAL.total_seconds()
            fdt = start + _dt.timedelta(seconds=tr + ahead + off)
            fdt = fdt.replace(microsecond=0)
            end = fdt + _dt.timedelta(seconds=900)
            new = {'times': [[[fdt.hour, fdt.minute, fdt.second, 0], [end.hour, end.minute, end.second, 0]]]}
            ops.append([tj, 'jump', jump])
            ops.append([tr, 'reconfig', i, new, False])
            case['aim'] = 'jump+reconfig'
    ops.sort(key=lambda o: o[0])
    # one jump per case keeps the settling rule simple
    seen_jump = False
    kept = []
    for o in ops:
        if o[1] == 'jump':
            if seen_jump:
                continue
            seen_jump = True
        kept.append(o)
    case['ops'] = kept
    if nblocks >= 2 and rng.random() < 0.2:
        # one block's output change reconfigures another block of the same scheduler; the two
        # share a time of day (pool), the new configuration is random (often without it)
        i, j = rng.sample(range(nblocks), 2)
        if blocks[i]['utc'] == blocks[j]['utc']:
            fstart = start if blocks[j]['utc'] else start + LOCAL
            new = g_td_cfg(rng, fstart) if blocks[j]['kind'] == 'td' else g_ts_cfg(rng, fstart)
            case['links'] = [{'from': i, 'to': j, 'cfg': new}]
    case['maxsamples'] = 150 if quick else 400
    return case


def gen(ctx):
    quick = ctx.tier == 'quick'
    rng = ctx.rng('gen')
    n = 400 if quick else 20000
    for _ in range(n):
        yield random_case(rng, quick)


def run_one(case, ctx):
    hist, res = run_case(case, ctx)
    try:
        nontrivial = judge(case, hist, res, ctx)
    except core.Violation as v:
        ctx.violation(case, v.key, v.msg, history=hist.dump(50))
        ctx.case_done(case, True)
        return
    ctx.case_done(case, nontrivial, {'case': case, 'judged': res['judged']}
                  if len(ctx.samples) < 2 and nontrivial else None)


def run_shard(ctx):
    for case in gen(ctx):
        run_one(case, ctx)


def replay(rep, ctx):
    run_one(rep['case'], ctx)
