"""
C08 - every started block is stopped exactly once and nothing outlives the simulation.

Fault enumeration: (fault site: probe block x life-cycle phase, or none) x (termination cause)
x (instant: before start, during async init, running, during clean-up) x circuit composition,
judged by termination-agnostic life-cycle rules over the recorded history:
  L1  stop() ran exactly once on exactly those blocks whose start() had returned;
  L2  every stop_async task (and stop() of the async blocks) finished before the first stop()
      of a block without asynchronous clean-up;
  L3  a failing clean-up routine does not prevent the other clean-ups (follows from L1);
  L4  when the simulation task / run() has finished no task or timer created by edzed is
      pending, and nothing of edzed runs during one more virtual day;
  L5  stop_data is the last thing an output block processes (iff the block was started);
  L6  a finished circuit can be neither restarted nor modified;
  L7  the clean-up takes at most the largest stop_timeout.
"""

import asyncio
import os
import signal
import sys

from .. import core, probes, vloop

PROP = 'C08'
TECHNIQUE = ('runtime monitoring with fault enumeration: start/stop wrappers on every block, loop task/timer registries and output-function logs judged by termination-agnostic life-cycle rules for fault site x cause x instant')
LEVEL = 'fault_enumeration'
RULE = ("case = (mode: run_forever task / edzed.run() with supporting tasks) x (fault site: one "
        "of the probe blocks x phase in {start before/after super().start(), restore, init_async "
        "raise/never, init_regular, init_from_value, first evaluation, event handler, main task, "
        "stop, stop_async raise/never} or none) x (termination cause: shutdown(), abort(exc), "
        "'shutdown' and 'abort' control events (Event.shutdown()/Event.abort(), also fired at "
        "init), handler error, calc_output error, failing main task, supporting task returning / "
        "raising, SIGTERM (real signal), cancellation of the run() task, abort before start, "
        "none) x (instant: before start, during async init, running, during clean-up = second "
        "cause while a slow stop_async is awaited) x composition (probes with every add-on, "
        "Timer fed by an OutputFunc's on_success, OutputFunc/OutputAsync with stop_data, Repeat, "
        "ValuePoll, InitAsync, persistent Input, _not_/_ctrl auto blocks) x address-space "
        "perturbation; non-trivial = at least one block was started and the rules L1..L7 were "
        "evaluated on the finished simulation")
ASSUMPTIONS = [
    "start()/stop() of every block (auto-created _ctrl, _not_X and implicit Repeat included) are "
    "observed by instance-level record-and-delegate wrappers installed from a wrapper of "
    "Block.__init__; asynchronous clean-up is observed through the loop's task registry "
    "(tasks named 'edzed: stop_async for block ...')",
    "which blocks have asynchronous clean-up is read from the real objects (has_method("
    "'stop_async') and stop_timeout > 0), as the simulator does",
    "a main-task block whose own start() raises after super().start() leaves a task behind "
    "that only its stop() could end: judged, reported under its own mechanism key",
    "events sent into asynchronous blocks after their stop() are not generated (documented as "
    "undefined)",
    "L7 bound = largest stop_timeout of the async blocks + one OutputAsync guard time + 1 ms",
]
REQUIRED = {'cases_judged': 300, 'blocks_stop_checked': 3000, 'start_failures': 20,
            'terminated_during_async_init': 20, 'second_cause_during_cleanup': 20,
            'cleanup_faults': 20, 'sigterm_cases': 5, 'cancel_run_cases': 5,
            'stop_data_last_checked': 300, 'stop_data_cancelled_running_job': 100, 'restart_refused': 300, 'modify_refused': 300,
            'async_before_sync_checked': 200, 'stop_orders': 3}
SHARDS = {'quick': 16, 'thorough': 16}
TIMEOUT = {'quick': 300, 'thorough': 3000}

T_INIT1, T_INIT2 = 3.0, 4.0     # completion instants of the two async initialisations
T_END = 14.0


class Fault(Exception):
    pass


FAULTS = [
    None,
    ('s0', 'start_before_super'), ('s0', 'start'), ('s0', 'init_regular'),
    ('s0', 'init_from_value'), ('s0', 'handler'), ('s0', 'stop'),
    ('a1', 'start'), ('a1', 'stop'), ('a1', 'stop_async_raise'), ('a1', 'stop_async_never'),
    ('m2', 'start'), ('m2', 'maintask'), ('m2', 'stop_async_raise'), ('m2', 'stop_async_never'),
    ('i3', 'init_async_raise'), ('i3', 'init_async_never'), ('i3', 'start'),
    ('p4', 'restore'), ('p4', 'start'), ('p4', 'stop'),
    ('fb', 'first_eval'),
    ('os', 'result_event'),
    ('mx', 'mixin_start'),
]
CAUSES_R = ['none', 'shutdown', 'abort', 'ev_shutdown', 'ev_abort', 'handler', 'calc',
            'abort_before_start', 'ev_shutdown_at_init', 'ev_abort_at_init']
CAUSES_N = ['sigterm', 'cancel_run', 'shutdown', 'ev_shutdown', 'abort', 'handler', 'calc', 'none']
CAUSES_U = ['sup_return', 'sup_raise', 'sigterm', 'cancel_run', 'shutdown', 'ev_shutdown',
            'abort']
INSTANTS = {'early': 0.0, 'async_init': 1.5, 'running': 6.0}


class Lifecycle:
    """Context manager: record start()/stop() of every block created meanwhile."""

    def __init__(self, hist):
        self.hist = hist
        self.blocks = []
        self.async_tasks = []       # stop_async tasks seen by the loop's task hook

    def __enter__(self):
        import edzed
        self._orig = edzed.Block.__init__
        life = self
        orig_init = self._orig

        def init(blk, *args, **kwargs):
            orig_init(blk, *args, **kwargs)
            life.blocks.append(blk)
            for meth in ('start', 'stop'):
                orig = getattr(blk, meth)

                def wrapper(*a, _orig=orig, _meth=meth, _blk=blk, **k):
                    life.hist.log(_meth + '_enter', _blk.name,
                                  sum(1 for t in life.async_tasks if not t.done()))
                    try:
                        res = _orig(*a, **k)
                    except BaseException as err:
                        life.hist.log(_meth + '_raise', _blk.name, repr(err)[:80])
                        raise
                    life.hist.log(_meth + '_return', _blk.name)
                    return res
                setattr(blk, meth, wrapper)
        edzed.Block.__init__ = init
        return self

    def __exit__(self, *exc):
        import edzed
        edzed.Block.__init__ = self._orig
        return False


def build_circuit(edzed, case, hist, state):
    fault = case.get('fault')
    comp = case.get('comp', 'full')

    def script(name, base=None):
        sc = dict(base or {})
        if fault and fault[0] == name:
            ph = fault[1]
            if ph == 'start_before_super':
                sc['start_before_super'] = 'raise'
            elif ph in ('start', 'init_regular', 'init_from_value', 'handler', 'stop', 'restore'):
                sc[ph] = 'raise'
            elif ph == 'stop_async_raise':
                sc['stop_async'] = ('raise', 0.5)
            elif ph == 'stop_async_never':
                sc['stop_async'] = ('never', 0)
            elif ph == 'init_async_raise':
                sc['init_async'] = ('raise', 1.0)
            elif ph == 'init_async_never':
                sc['init_async'] = ('never', 0)
            elif ph == 'maintask':
                sc['maintask'] = ('raise', 5.0)
        return sc
    objs = {}
    keep = state['keep']
    rng = state['rng']
    makers = []

    def mk(name, features, base=None, **kw):
        def make():
            core.perturb_addresses(rng, keep)
            objs[name] = probes.make_probe(name, features, hist, script(name, base), **kw)
        makers.append(make)

    mk('s0', {'initdef'}, initdef=1)
    mk('a1', {'astop', 'initdef'}, {'stop_async': ('ok', 2.0)}, initdef=1, stop_timeout=5)
    mk('m2', {'maintask', 'initdef'}, initdef=1, stop_timeout=5)
    if case.get('slow_stop'):
        # an asynchronous clean-up that needs longer than the stop_timeout of the OTHER blocks
        # (and has a longer time-out of its own): every block has its own limit, measured from
        # the common start; a block whose limit is used up while this one is awaited is timed
        # out (cancelled) all the same
        mk('a6', {'astop', 'initdef'}, {'stop_async': ('ok', 6.0)}, initdef=1, stop_timeout=8)
    mk('i3', {'ainit', 'initdef'}, {'init_async': ('ok', T_INIT1)}, initdef=1, init_timeout=9)
    mk('i5', {'ainit', 'initdef'}, {'init_async': ('ok', T_INIT2)}, initdef=1, init_timeout=9)
    mk('p4', {'persist', 'initdef'}, initdef=1, persistent=True)

    def mk_tm():
        core.perturb_addresses(rng, keep)
        objs['tm'] = edzed.Timer('tm', t_on=5.0)
    makers.append(mk_tm)

    def mk_of():
        core.perturb_addresses(rng, keep)

        def func(value):
            hist.log('of_call', value)
            return value
        objs['of'] = edzed.OutputFunc('of', func=func, stop_data={'value': 'STOP'},
                                      on_success=edzed.Event('tm', 'start'), on_error=None)
    makers.append(mk_of)

    def mk_oa():
        core.perturb_addresses(rng, keep)

        async def coro(value):
            hist.log('oa_start', value)
            await asyncio.sleep(0.5)
            hist.log('oa_end', value)
        objs['oa'] = edzed.OutputAsync('oa', coro=coro, mode='w', stop_data={'value': 'STOP'},
                                       on_error=None, stop_timeout=5)
    makers.append(mk_oa)

    def mk_oc():
        core.perturb_addresses(rng, keep)

        async def coro(value):
            hist.log('oc_start', value)
            await asyncio.sleep(0.5 if value == 'STOP' else 30.0)
            hist.log('oc_end', value)

        def retry_once(data):
            # retry arrangement: a cancelled 'job' is queued again (once, under another name)
            if data['put'].get('value') == 'job':
                return {'value': 'job-retry'}
            return False
        # 'cancel' mode: a new item cancels the running job; the long job is still running
        # when the simulation ends, stop_data cancels it and the block's own on_cancel event
        # puts a new item into the block whose stop() was already called
        objs['oc'] = edzed.OutputAsync('oc', coro=coro, mode='c', stop_data={'value': 'STOP'},
                                       on_error=None, stop_timeout=5,
                                       on_cancel=edzed.Event('oc', 'put', efilter=retry_once))
    makers.append(mk_oc)

    def mk_os():
        core.perturb_addresses(rng, keep)

        async def coro(value):
            hist.log('os_start', value)
            await asyncio.sleep({'short': 1.5, 'long': 2.5}.get(value, 0.5))
            hist.log('os_end', value)
            return value

        def result_filter(data):
            # fault site ('os', 'result_event'): the delivery of the result event of the job
            # that ends first (during the clean-up) fails inside the output task
            if tuple(fault or ()) == ('os', 'result_event') and data.get('value') == 'short':
                hist.log('raise', 'os', 'result_event')
                raise Fault('os result event')
            return True
        # 'start' mode: jobs run concurrently; two of them are still running when the
        # simulation ends, stop_data must be processed after both have finished
        objs['os'] = edzed.OutputAsync('os', coro=coro, mode='s', stop_data={'value': 'STOP'},
                                       on_error=None, stop_timeout=5, on_success=edzed.Event(
                                           's0', 'ping', efilter=result_filter))
    makers.append(mk_os)

    def mk_mx():
        # a main-task block composed with a mix-in that sits BELOW the AddonMainTask add-on in
        # the MRO; fault site ('mx', 'mixin_start'): the mix-in's start() fails, i.e. the block's
        # start() never returns - no task of the block may exist afterwards
        core.perturb_addresses(rng, keep)

        class StartMixin:
            def start(self):
                super().start()
                if tuple(fault or ()) == ('mx', 'mixin_start'):
                    hist.log('raise', 'mx', 'start')
                    raise Fault('mx mixin start')

        class MX(edzed.AddonMainTask, StartMixin, edzed.SBlock):
            def init_regular(self):
                self.set_output(0)

            async def _maintask(self):
                hist.log('mx_maintask_running')
                await asyncio.sleep(10 ** 6)
        objs['mx'] = MX('mx', stop_timeout=2)
    makers.append(mk_mx)

    def lib():
        core.perturb_addresses(rng, keep)
        if comp != 'small':
            # (explicit None = the default time-out, documented)
            objs['rp'] = edzed.Repeat('rp', dest='s0', etype='ping', interval=0.7,
                                      stop_timeout=None)
            objs['vp'] = edzed.ValuePoll('vp', func=lambda: 7, interval=0.9, init_timeout=None,
                                         stop_timeout=None, on_output=edzed.Event('rp', 'ping'))

            async def icoro():
                await asyncio.sleep(2.0)
                return 'async-value'
            # a free-running timer: its n-th timer is started by the expiry of the (n-1)-th
            objs['tp'] = edzed.Timer('tp', t_period=1.1, initdef='on')
            objs['ia'] = edzed.InitAsync('ia', init_coro=[icoro], init_timeout=9, on_output=[
                edzed.Event('inp', 'put'), edzed.Event('pin', 'put')])
            # persistent, nothing stored, no initdef: stays uninitialised (get_state() raises)
            # until the InitAsync block delivers a value at t=2
            objs['pin'] = edzed.Input('pin', persistent=True)
        # output blocks whose function takes no event data: their stop_data is an empty mapping
        # ("not used" is None, anything else is used)
        def of0func():
            hist.log('of0_call')

        async def oa0coro():
            hist.log('oa0_call')
        objs['of0'] = edzed.OutputFunc('of0', func=of0func, f_args=(), stop_data={}, on_error=None)
        objs['oa0'] = edzed.OutputAsync('oa0', coro=oa0coro, f_args=(), stop_data={}, on_error=None,
                                        mode=rng.choice(['w', 's', 'c']), stop_timeout=3)
        objs['inp'] = edzed.Input('inp', initdef=0, persistent=True)
        objs['x'] = edzed.Input('x', initdef=(1 if fault == ('fb', 'first_eval') else 0))

        def fbfunc(x):
            if x:
                hist.log('calc_raise')
                raise Fault('calc')
            return 0
        edzed.FuncBlock('fb', func=fbfunc).connect('x')
        edzed.And('and').connect('_not_inp', 'x')
        shutdown_ctor = getattr(edzed.Event, 'shutdown', None)
        if shutdown_ctor is None:
            raise core.Violation('event-shutdown-constructor-missing',
                                 "edzed.Event.shutdown() (documented in docs/events.rst) does not exist")
        cause = case.get('cause')
        if cause == 'ev_shutdown_at_init':
            objs['sd'] = edzed.Input('sd', initdef=0, on_output=edzed.Event.shutdown())
        else:
            objs['sd'] = edzed.Input('sd', initdef=0, on_output=edzed.Event(
                '_ctrl', 'shutdown', efilter=edzed.not_from_undef))
        if cause == 'ev_abort_at_init':
            objs['ab'] = edzed.Input('ab', initdef=0, on_output=edzed.Event.abort())
        else:
            objs['ab'] = edzed.Input('ab', initdef=0, on_output=edzed.Event(
                '_ctrl', 'abort', efilter=edzed.not_from_undef))
    makers.append(lib)
    order = list(range(len(makers)))
    if case.get('perturb'):
        rng.shuffle(order)
    for i in order:
        makers[i]()
    return objs


def run_case(case, ctx):
    import warnings
    import edzed
    # supporting coroutines handed to a run() that is cancelled at once are never awaited
    warnings.filterwarnings('ignore', message='coroutine .* was never awaited')
    hist = core.History()
    state = {'keep': [], 'rng': ctx.rng('perturb', case.get('perturb', 0), core.case_hash(case)),
             'fired': []}
    res = {}
    mode = case['mode']
    cause = case['cause']
    inst = case.get('instant', 'running')
    t_cause = INSTANTS[inst] if isinstance(inst, str) else float(inst)
    second = case.get('second')

    def fire(kind, objs, circuit, loop, runtask_getter):
        state['fired'].append((kind, loop.time()))
        hist.log('cause', kind)
        try:
            if kind == 'shutdown':
                async def sd():
                    try:
                        await circuit.shutdown()
                    except BaseException as err:    # pylint: disable=broad-except
                        hist.log('shutdown_exc', repr(err)[:80])
                asyncio.get_running_loop().create_task(sd(), name='vf: shutdown')
            elif kind == 'abort':
                circuit.abort(Fault('abort'))
            elif kind == 'ev_shutdown':
                edzed.ExtEvent(objs['sd']).send(1)
            elif kind == 'ev_abort':
                edzed.ExtEvent(objs['ab']).send(1)
            elif kind == 'handler':
                edzed.ExtEvent(objs['s0'], 'work').send(n=1)
            elif kind == 'calc':
                edzed.ExtEvent(objs['x']).send(1)
            elif kind == 'sigterm':
                os.kill(os.getpid(), signal.SIGTERM)
            elif kind == 'cancel_run':
                runtask_getter().cancel()
        except Exception as err:    # pylint: disable=broad-except
            hist.log('cause_exc', kind, repr(err)[:100])

    # SIGTERM arriving when edzed.run() has no handler installed must not kill the worker
    def fallback(signo, frame):
        # edzed's own handler calls the previously installed handler as well (chaining)
        caller = sys._getframe(1).f_code
        if caller.co_name == '_handler' and '/edzed/' in caller.co_filename:
            hist.log('sigterm_chained')
        else:
            hist.log('sigterm_unhandled')
    old_handler = signal.signal(signal.SIGTERM, fallback)

    async def main(loop):
        hist.loop = loop
        edzed.reset_circuit()
        with Lifecycle(hist) as life:
            state['life'] = life
            objs = build_circuit(edzed, case, hist, state)
            circuit = edzed.get_circuit()
            storage = {"<Probe_initdef_persist 'p4'>": 5, "<Input 'inp'>": 3,
                       'edzed-stop-time': 0.0}
            circuit.set_persistent_data(storage)
            state['storage'] = storage
            state['objs'] = objs
            t0 = loop.time()
            state['t0'] = t0

            def on_task(task):
                # (the task name is assigned after the factory returns: use the coroutine)
                code = getattr(task.get_coro(), 'cr_code', None)
                if code is not None and code.co_name == 'stop_async':
                    name = getattr(task.get_coro(), '__qualname__', 'stop_async')
                    hist.log('stop_async_task', name)
                    life.async_tasks.append(task)
                    task.add_done_callback(
                        lambda t, name=name: hist.log('stop_async_done', name, t.cancelled()))
            loop.task_hook = on_task

            if cause == 'abort_before_start':
                circuit.abort(Fault('before start'))
            runtask = None
            fault = case.get('fault')
            # a handler fault needs a stimulus; it is the cause 'handler' or an extra event
            if mode == 'R':
                simtask = asyncio.create_task(circuit.run_forever(), name='vf: simtask')
                endtask = simtask
            else:
                sup = []
                if cause == 'sup_return':
                    async def returning():
                        await asyncio.sleep(t_cause)
                        state['fired'].append(('sup_return', loop.time()))
                        hist.log('cause', 'sup_return')
                    sup.append(returning())
                elif cause == 'sup_raise':
                    async def raising():
                        await asyncio.sleep(t_cause)
                        state['fired'].append(('sup_raise', loop.time()))
                        hist.log('cause', 'sup_raise')
                        raise Fault('supporting')
                    sup.append(raising())

                async def idle():
                    try:
                        await asyncio.sleep(T_END)
                    except asyncio.CancelledError:
                        # a supporting task whose own clean-up takes a while: run() has to
                        # await it whatever the simulation ended with
                        hist.log('sup_cleanup_begin')
                        await asyncio.sleep(0.2)
                        hist.log('sup_cleanup_end')
                        raise
                if mode == 'U':
                    sup.append(idle())
                # mode 'N': run() without supporting coroutines executes run_forever() itself
                runtask = asyncio.create_task(edzed.run(*sup), name='vf: runtask')
                endtask = runtask
            direct = {'shutdown', 'abort', 'ev_shutdown', 'ev_abort', 'handler', 'calc', 'sigterm',
                      'cancel_run'}
            if cause in direct:
                loop.call_at(t0 + t_cause, fire, cause, objs, circuit, loop, lambda: runtask)
            if fault == ('s0', 'handler') and cause != 'handler':
                loop.call_at(t0 + 5.5, fire, 'handler', objs, circuit, loop, lambda: runtask)
            if second:
                loop.call_at(t0 + t_cause + case.get('second_delay', 1.0), fire, second, objs, circuit,
                             loop, lambda: runtask)
            # some ordinary traffic while running
            def traffic():
                try:
                    edzed.ExtEvent(objs['of']).send('work')
                    edzed.ExtEvent(objs['oa']).send('job')
                    edzed.ExtEvent(objs['oc']).send('job')
                    edzed.ExtEvent(objs['os']).send('short')
                    edzed.ExtEvent(objs['os']).send('long')
                    edzed.ExtEvent(objs['inp']).send(9)
                except Exception as err:    # pylint: disable=broad-except
                    hist.log('traffic_refused', repr(err)[:60])
            loop.call_at(t0 + 5.0, traffic)

            def early_init():
                # an event initialises a block whose init_async is still running (documented:
                # the block is initialised early); its init task must not outlive a termination
                # that arrives during the asynchronous initialisation either
                for name in ('i5', 'i3'):
                    try:
                        edzed.ExtEvent(objs[name], 'init').send()
                        hist.log('early_init_sent', name)
                    except Exception as err:    # pylint: disable=broad-except
                        hist.log('traffic_refused', repr(err)[:60])
            if case.get('early_init'):
                loop.call_at(t0 + 1.0, early_init)

            async def final():
                await asyncio.sleep(T_END)
                if not endtask.done():
                    hist.log('cause', 'final_shutdown')
                    if mode in ('R', 'N'):
                        try:
                            await circuit.shutdown()
                        except BaseException:   # pylint: disable=broad-except
                            pass
            fin = asyncio.create_task(final(), name='vf: final')
            try:
                await endtask
                res['end_exc'] = None
            except BaseException as err:    # pylint: disable=broad-except
                res['end_exc'] = err
            hist.log('END')
            fin.cancel()
            res['end_vt'] = loop.time()
            me = asyncio.current_task()
            res['pending_tasks'] = [
                t.get_name() for t in loop.tasks
                if not t.done() and t is not me and t is not fin and loop.task_is_edzed(t)
                and not t.get_name().startswith('vf:')]
            res['pending_user_tasks'] = [
                t.get_name() for t in loop.tasks
                if not t.done() and t is not me and t is not fin
                and not t.get_name().startswith('vf:') and not loop.task_is_edzed(t)]
            res['pending_timers'] = [
                (type(h._callback.__self__).__name__, h._callback.__self__.name, h._when - t0)
                for h in loop.edzed_timers()]
            res['error'] = circuit.error
            res['is_ready'] = circuit.is_ready()
            # L6: neither restart nor modification
            try:
                await circuit.run_forever()
                res['restart'] = 'returned'
            except edzed.EdzedInvalidState:
                res['restart'] = 'refused'
            except BaseException as err:    # pylint: disable=broad-except
                res['restart'] = repr(err)
            mods = {}
            try:
                edzed.Input('late_block', initdef=0)
                mods['new_block'] = 'accepted'
            except edzed.EdzedInvalidState:
                mods['new_block'] = 'refused'
            except Exception as err:    # pylint: disable=broad-except
                mods['new_block'] = repr(err)
            try:
                circuit.set_persistent_data({})
                mods['set_persistent_data'] = 'accepted'
            except edzed.EdzedInvalidState:
                mods['set_persistent_data'] = 'refused'
            try:
                edzed.Not('late_not').connect('x')
                mods['new_cblock'] = 'accepted'
            except edzed.EdzedInvalidState:
                mods['new_cblock'] = 'refused'
            except Exception as err:    # pylint: disable=broad-except
                mods['new_cblock'] = repr(err)
            res['mods'] = mods
            res['finalized'] = circuit.is_finalized()

    try:
        loop, _res, exc = vloop.run(main, drain=86400.0)
    finally:
        signal.signal(signal.SIGTERM, old_handler)
    res['main_exc'] = exc
    res['drain_exc'] = getattr(loop, 'drain_exc', None)
    res['exc_log'] = loop.exc_log
    life = state.get('life')
    blocks = life.blocks if life else []
    def positive(x):
        return isinstance(x, (int, float)) and x > 0
    res['blocks'] = [(b.name, bool(b.has_method('stop_async') and positive(getattr(b, 'stop_timeout', 0)))
                      if isinstance(b, edzed.SBlock) else False,
                      getattr(b, 'stop_timeout', None)) for b in blocks]
    edzed.reset_circuit()
    return hist, state, res


def judge(case, hist, state, res, ctx):
    where = (f"mode={case['mode']} fault={case.get('fault')} cause={case['cause']} "
             f"instant={case.get('instant')} second={case.get('second')} comp={case.get('comp')}")
    if isinstance(res.get('main_exc'), core.Violation):
        raise res['main_exc']
    if res.get('main_exc') is not None:
        raise core.Violation('harness-run-exception', f"{where}: {res['main_exc']!r}")
    E = hist.entries
    end_seq = next((e[0] for e in E if e[2] == 'END'), None)
    if end_seq is None:
        raise core.Violation('simulation-never-ended', f"{where}")
    # ---- L1 ----
    started, start_entered, stops = {}, {}, {}
    for e in E:
        if e[2] == 'start_return':
            started[e[3]] = started.get(e[3], 0) + 1
        elif e[2] == 'start_enter':
            start_entered[e[3]] = start_entered.get(e[3], 0) + 1
        elif e[2] == 'stop_enter':
            stops.setdefault(e[3], []).append(e[0])
    names = [b[0] for b in res['blocks'] if b[0] not in ('late_block', 'late_not')]
    start_failed = any(e[2] == 'start_raise' for e in E)
    if start_failed:
        ctx.count('start_failures')
    for name in names:
        ctx.count('blocks_stop_checked')
        ns, nst = started.get(name, 0), len(stops.get(name, []))
        if start_entered.get(name, 0) > 1:
            raise core.Violation('block-started-twice', f"{where}: {name}")
        if ns == 1 and nst != 1:
            raise core.Violation(
                'started-block-not-stopped' if nst == 0 else 'block-stopped-twice',
                f"{where}: block {name!r}: start() returned, stop() called {nst}x")
        if ns == 0 and nst != 0:
            raise core.Violation('stop-without-start',
                                 f"{where}: block {name!r}: start() did not return "
                                 f"(entered {start_entered.get(name, 0)}x), stop() called {nst}x")
    if any(seqs[-1] > end_seq for seqs in stops.values()):
        raise core.Violation('stop-after-end', f"{where}")
    # ---- L2 ----
    is_async = {b[0]: b[1] for b in res['blocks']}
    sync_stops = [seqs[0] for n, seqs in stops.items() if not is_async.get(n)]
    async_stops = [seqs[0] for n, seqs in stops.items() if is_async.get(n)]
    adone = [e[0] for e in E if e[2] == 'stop_async_done']
    atask = [e for e in E if e[2] == 'stop_async_task']
    if sync_stops and (async_stops or adone):
        ctx.count('async_before_sync_checked')
        first_sync = min(sync_stops)
        if async_stops and max(async_stops) > first_sync:
            raise core.Violation('sync-block-stopped-before-async-block',
                                 f"{where}: a block without async clean-up was stopped before "
                                 "stop() of an async block")
        unfinished = max(e[4] for e in E if e[2] == 'stop_enter' and not is_async.get(e[3]))
        if unfinished:
            raise core.Violation('sync-block-stopped-before-stop_async-finished',
                                 f"{where}: {unfinished} of {len(atask)} stop_async task(s) still "
                                 "running when a block without async clean-up was stopped")
    started_async = [n for n in names if is_async.get(n) and started.get(n)]
    if len(atask) != len(started_async):
        raise core.Violation('stop_async-not-awaited',
                             f"{where}: started async blocks {started_async}, stop_async tasks "
                             f"{[a[3] for a in atask]}")
    if any(e[2] in ('stop_raise',) for e in E) or (case.get('fault') or ('', ''))[1].startswith('stop'):
        ctx.count('cleanup_faults')
    # ---- L4 ----
    if res['pending_tasks'] or res['pending_timers']:
        key = 'task-pending-after-end' if res['pending_tasks'] else 'timer-pending-after-end'
        if res['pending_tasks'] == ["edzed: main task for block 'm2'"] \
                and case.get('fault') == ('m2', 'start'):
            key = 'maintask-leaked-when-own-start-raises-after-super'
        raise core.Violation(key, f"{where}: after the end: tasks {res['pending_tasks']}, "
                             f"timers {res['pending_timers']}")
    if res['pending_user_tasks']:
        raise core.Violation('task-pending-after-end', f"{where}: {res['pending_user_tasks']}")
    harness_kinds = ('cause', 'cause_exc', 'traffic_refused', 'shutdown_exc', 'sigterm_unhandled',
                     'sigterm_chained', 'sup_cleanup_begin', 'sup_cleanup_end', 'early_init_sent',
                     'mx_maintask_running')
    if any(e[2] == 'sup_cleanup_begin' for e in E):
        ctx.count('supporting_task_with_slow_cleanup')
        if not any(e[2] == 'sup_cleanup_end' and e[0] < end_seq for e in E):
            raise core.Violation(
                'supporting-task-not-awaited',
                f"{where}: run() returned although a cancelled supporting task had not finished "
                "its own clean-up yet")
    # SIGTERM while edzed.run() is still at work (incl. its wait for the end of the clean-up)
    # must be caught by its handler: the default action would kill the process at once
    if case['mode'] in ('U', 'N'):
        lost = [e for e in E if e[2] == 'sigterm_unhandled' and e[0] < end_seq]
        if any(k == 'sigterm' for k, _t in state['fired']):
            ctx.count('sigterm_handler_checked')
        if lost:
            raise core.Violation(
                'sigterm-not-caught-while-run-is-active',
                f"{where}: SIGTERM at +{lost[0][1] - state.get('t0', 0):.3f}s found no edzed handler "
                "installed although run() had not returned yet (default action: the process "
                "dies, no clean-up)")
    late = [e for e in E if e[0] > end_seq and e[1] > res['end_vt'] + 1e-9
            and e[2] not in harness_kinds]
    if late:
        raise core.Violation('activity-after-end',
                             f"{where}: {late[0][2:6]} at +{late[0][1] - res['end_vt']:.3f}s after the end")
    if res.get('drain_exc') is not None:
        raise core.Violation('activity-after-end', f"{where}: drain raised {res['drain_exc']!r}")
    leaked = [x for x in res['exc_log'] if 'never retrieved' in str(x.get('message', ''))
              or 'was destroyed' in str(x.get('message', ''))]
    if leaked:
        raise core.Violation('loop-reported-leak', f"{where}: {leaked[:2]}")
    # ---- L5 ----
    of_calls = [e[3] for e in E if e[2] == 'of_call']
    ctx.count('stop_data_last_checked')
    if started.get('of'):
        if of_calls.count('STOP') != 1 or of_calls[-1] != 'STOP':
            raise core.Violation('stop-data-not-last',
                                 f"{where}: OutputFunc calls {of_calls} (block was started)")
    elif 'STOP' in of_calls:
        raise core.Violation('stop-data-without-start', f"{where}: OutputFunc calls {of_calls}")
    oa_calls = [e[3] for e in E if e[2] == 'oa_start']
    if started.get('oa'):
        if oa_calls.count('STOP') != 1 or oa_calls[-1] != 'STOP':
            raise core.Violation('stop-data-not-last',
                                 f"{where}: OutputAsync runs {oa_calls} (block was started)")
        if not any(e[2] == 'oa_end' and e[3] == 'STOP' for e in E):
            raise core.Violation('stop-data-not-completed', f"{where}: OutputAsync stop_data run cut")
    elif 'STOP' in oa_calls:
        raise core.Violation('stop-data-without-start', f"{where}: OutputAsync runs {oa_calls}")
    oc_calls = [e[3] for e in E if e[2] == 'oc_start']
    if started.get('oc'):
        if oc_calls.count('STOP') != 1 or oc_calls[-1] != 'STOP':
            raise core.Violation('stop-data-not-last',
                                 f"{where}: OutputAsync (cancel mode) runs {oc_calls} (block was started)")
        if not any(e[2] == 'oc_end' and e[3] == 'STOP' for e in E):
            raise core.Violation('stop-data-not-completed',
                                 f"{where}: OutputAsync (cancel mode) stop_data run cut")
        if 'job' in oc_calls:
            ctx.count('stop_data_cancelled_running_job')
    elif 'STOP' in oc_calls:
        raise core.Violation('stop-data-without-start', f"{where}: OutputAsync runs {oc_calls}")
    os_calls = [e[3] for e in E if e[2] == 'os_start']
    if started.get('os'):
        os_ends = [e[3] for e in E if e[2] == 'os_end']
        if os_calls.count('STOP') != 1 or os_calls[-1] != 'STOP' or os_ends[-1:] != ['STOP']:
            raise core.Violation(
                'stop-data-not-last',
                f"{where}: OutputAsync (start mode) runs started {os_calls}, finished {os_ends} "
                "(block was started)")
        if 'long' in os_calls:
            ctx.count('stop_data_after_concurrent_jobs')
            if os_ends.count('long') != 1 or os_ends.index('long') > os_ends.index('STOP'):
                raise core.Violation(
                    'stop-data-not-last',
                    f"{where}: OutputAsync (start mode): the job running at the stop did not "
                    f"finish before stop_data: finished {os_ends}")
    elif 'STOP' in os_calls:
        raise core.Violation('stop-data-without-start', f"{where}: OutputAsync runs {os_calls}")
    for blk0 in ('of0', 'oa0'):
        n0 = sum(1 for e in E if e[2] == blk0 + '_call')
        if n0 != (1 if started.get(blk0) else 0):
            ctx.count('empty_stop_data_checked')
            raise core.Violation(
                'stop-data-not-last' if started.get(blk0) else 'stop-data-without-start',
                f"{where}: {blk0} (function without arguments, stop_data={{}}; started: "
                f"{bool(started.get(blk0))}) was called {n0} time(s)")
        ctx.count('empty_stop_data_checked')
    # ---- L6 ----
    if res['restart'] != 'refused':
        raise core.Violation('finished-circuit-restarted', f"{where}: run_forever() again: {res['restart']}")
    ctx.count('restart_refused')
    bad = {k: v for k, v in res['mods'].items() if v != 'refused'}
    if bad:
        raise core.Violation('finished-circuit-modified', f"{where}: {bad}")
    ctx.count('modify_refused')
    if res['is_ready']:
        raise core.Violation('ready-after-end', f"{where}")
    # ---- L7 ----
    first_stop = min((seqs[0] for seqs in stops.values()), default=None)
    if first_stop is not None:
        t_first = E[first_stop][1]
        limit = max([b[2] for b in res['blocks'] if b[1] and started.get(b[0])] or [0.0])
        # (mode U: plus the 0.2 s the harness's own supporting task needs for its clean-up)
        if res['end_vt'] - t_first > limit + (0.2 if case['mode'] == 'U' else 0.0) + 1e-3:
            raise core.Violation('cleanup-not-bounded',
                                 f"{where}: clean-up took {res['end_vt'] - t_first:.3f} s, largest "
                                 f"stop_timeout {limit}")
    # ---- counters ----
    fired = [k for k, _t in state['fired']]
    t0 = state.get('t0', 0)
    if first_stop is not None and E[first_stop][1] - t0 < T_INIT1 - 1e-6 and any(
            e[2] == 'call' and e[4] == 'init_async' for e in E):
        ctx.count('terminated_during_async_init')
    if case.get('second') and first_stop is not None and any(
            e[2] == 'cause' and e[3] == case['second'] and e[0] > first_stop and e[0] < end_seq
            for e in E):
        ctx.count('second_cause_during_cleanup')
    if 'sigterm' in fired:
        ctx.count('sigterm_cases')
    if 'cancel_run' in fired:
        ctx.count('cancel_run_cases')
    order = tuple(E[seqs[0]][3] for seqs in sorted(stops.values()) if not is_async.get(E[seqs[0]][3]))
    ctx.seen('stop_orders', order[:6])
    ctx.count('cases_judged')
    return bool(started)


def classify(case, key, state):
    """Mechanism key of a violation (known findings are keyed by mechanism, see DESIGN.md)."""
    fired = [k for k, _t in state['fired']]
    first_cancel = next((t for k, t in state['fired'] if k == 'cancel_run'), None)
    if case['mode'] == 'N' and first_cancel is not None:
        # run() without coroutines: its task IS the simulation task.  Was it cancelled while the
        # clean-up (started by an earlier cause or fault) was already in progress?
        cleanup_t = next((e[1] for e in state.get('entries', ()) if e[2] == 'stop_enter'), None)
        end_t = next((e[1] for e in state.get('entries', ()) if e[2] == 'END'), float('inf'))
        cancels = [t for k, t in state['fired'] if k == 'cancel_run']
        if cleanup_t is not None and any(cleanup_t - 1e-9 <= t <= end_t + 1e-9 for t in cancels):
            return 'run-without-coroutines-cancelled-during-cleanup-aborts-the-cleanup'
    if case['mode'] == 'U' and first_cancel is not None:
        t0 = state.get('t0', 0.0)
        if case.get('second') == 'cancel_run' and fired.index('cancel_run') > 0:
            # the task running run() was cancelled while run() was already awaiting the clean-up
            return 'run-task-cancelled-during-cleanup-aborts-the-cleanup'
        if fired[0] == 'cancel_run' and abs(first_cancel - t0) < 1e-9:
            # the task running run() was cancelled before run() started its supporting tasks
            return 'run-task-cancelled-at-its-first-await-orphans-the-simulation'
    return key


def run_one(case, ctx):
    hist, state, res = run_case(case, ctx)
    try:
        nontrivial = judge(case, hist, state, res, ctx)
    except core.Violation as v:
        state['entries'] = hist.entries
        v.key = classify(case, v.key, state)
        ctx.violation(case, v.key, v.msg, history=hist.dump(200))
        ctx.case_done(case, True)
        return
    sample = None
    if nontrivial and len(ctx.samples) < ctx.MAX_SAMPLES:
        sample = {'case': case, 'history': [e for e in hist.dump(400) if e[2] in (
            'start_return', 'start_raise', 'stop_enter', 'stop_async_done', 'cause', 'END')][:60]}
    ctx.case_done(case, nontrivial, sample, enumerated=True)


def gen(ctx):
    quick = ctx.tier == 'quick'
    cases = []
    for fault in FAULTS:
        for cause in CAUSES_R:
            instants = ['running'] if cause in ('none', 'abort_before_start', 'ev_shutdown_at_init',
                                               'ev_abort_at_init') else ['early', 'async_init', 'running']
            for inst in instants:
                cases.append({'mode': 'R', 'fault': fault, 'cause': cause, 'instant': inst})
        for cause in CAUSES_U:
            for inst in ['early', 'async_init', 'running']:
                if quick and fault is not None and inst == 'early':
                    continue
                cases.append({'mode': 'U', 'fault': fault, 'cause': cause, 'instant': inst})
        for cause in CAUSES_N:
            for inst in ['early', 'async_init', 'running']:
                if quick and fault is not None and inst != 'running':
                    continue
                cases.append({'mode': 'N', 'fault': fault, 'cause': cause, 'instant': inst})
    # second cause while the clean-up of the first one is in progress
    for fault in (None, ('a1', 'stop_async_never'), ('m2', 'stop_async_raise'), ('s0', 'stop')):
        for first in ('shutdown', 'abort', 'ev_shutdown', 'handler'):
            for second in ('shutdown', 'abort', 'ev_abort', 'calc'):
                cases.append({'mode': 'R', 'fault': fault, 'cause': first, 'instant': 'running',
                              'second': second})
        for first in ('sup_return', 'sigterm', 'abort'):
            for second in ('sigterm', 'cancel_run', 'shutdown', 'abort'):
                cases.append({'mode': 'U', 'fault': fault, 'cause': first, 'instant': 'running',
                              'second': second})
        for first in ('cancel_run', 'sigterm', 'abort'):
            for second in ('sigterm', 'cancel_run', 'shutdown', 'abort'):
                cases.append({'mode': 'N', 'fault': fault, 'cause': first, 'instant': 'running',
                              'second': second})
    if not quick:
        # finer grid of termination instants (ties with the ends of the asynchronous
        # initialisations at 2, 3 and 4 s and with the traffic at 5 s) and of the delay of a
        # second cause (ties with the end of the 2 s stop_async)
        for mode, causes in (('R', ('shutdown', 'abort', 'ev_abort')),
                             ('U', ('sup_return', 'sup_raise', 'sigterm', 'cancel_run')),
                             ('N', ('sigterm', 'cancel_run', 'abort'))):
            for cause in causes:
                for inst in (0.25, 2.0, 2.5, 3.0, 3.25, 4.0, 4.25, 5.0, 5.25):
                    cases.append({'mode': mode, 'fault': None, 'cause': cause, 'instant': inst})
                for second in ('sigterm', 'cancel_run', 'abort', 'shutdown'):
                    if mode == 'R' and second in ('sigterm', 'cancel_run'):
                        continue
                    for delay in (0.0, 0.25, 2.0, 2.25):
                        cases.append({'mode': mode, 'fault': None, 'cause': cause,
                                      'instant': 'running', 'second': second,
                                      'second_delay': delay})
    nperturb = 1 if quick else 12
    out = []
    for p in range(nperturb):
        for i, c in enumerate(cases):
            # perturb > 0: shuffled creation (= start) order and address-space perturbation
            c2 = dict(c, perturb=(i + p) % 4)
            if (i + p) % 5 == 0:
                c2['comp'] = 'small'
            if (i + p) % 3 == 0:
                c2['early_init'] = True
            if (i + p) % 4 == 1:
                c2['slow_stop'] = True
            out.append(c2)
    for i, c in enumerate(out):
        if i % ctx.nshards == ctx.shard:
            yield c


def run_shard(ctx):
    for case in gen(ctx):
        run_one(case, ctx)
    ctx.exhaustive = True


def replay(rep, ctx):
    case = rep['case']
    if isinstance(case.get('fault'), list):
        case['fault'] = tuple(case['fault'])
    run_one(case, ctx)
