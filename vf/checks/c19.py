"""
C19 - durations convert consistently in both directions.

Differential / round-trip oracle with exact Fraction arithmetic on generated inputs.
"""

from fractions import Fraction
import math
import random
import re

from .. import core

PROP = 'C19'
TECHNIQUE = ('runtime monitoring: differential / round-trip oracle with exact Fraction arithmetic over generated duration renderings and malformed strings')
LEVEL = 'exploration'
RULE = ("case = one generated duration (d,h,m,s + optional decimal fraction on the smallest "
        "unit) with all its renderings (traditional/ISO, unit subsets, random case, inner "
        "whitespace, point/comma), or one number for timestr/timestr_approx/time_period, or "
        "one malformed string; distinct = distinct canonical case; non-trivial = the oracle "
        "compared at least one value returned by edzed.utils (convert/timestr/...) or observed "
        "the rejection of a malformed input")
ASSUMPTIONS = [
    "expected values computed with fractions.Fraction from the generator's integers",
    "float tolerance for convert(): 1e-9 relative (the implementation sums floats)",
    "timestr_approx step table taken from docs/utils.rst + the table in its source comment: "
    "<1s:1ms, <10s:10ms, <60s:0.1s, <10h:1s (floats), <10d:1min, >=10d:1h; error must be "
    "< step (the property's wording), ints below 10h exact",
    "malformed set restricted to documented rejections and unambiguous garbage",
]
REQUIRED = {'convert_calls': 1000, 'timestr_roundtrips': 500, 'approx_checks': 300,
            'malformed_rejected': 20, 'time_period_checks': 100}
SHARDS = {'quick': 8, 'thorough': 16}
TIMEOUT = {'quick': 300, 'thorough': 3000}

UNITS = (86400, 3600, 60, 1)
TRAD = 'dhms'


def render_traditional(rng, parts, frac):
    """parts: list of 4 ints or None; frac: digits string or None (on the smallest present)."""
    present = [i for i, p in enumerate(parts) if p is not None]
    out = []
    for i in present:
        num = str(parts[i])
        if rng.random() < 0.15:
            num = '0' * rng.randrange(1, 3) + num
        if frac is not None and i == present[-1]:
            num += rng.choice('.,') + frac
        unit = TRAD[i]
        if rng.random() < 0.5:
            unit = unit.upper()
        if i == 3 and i == present[-1] and rng.random() < 0.3:
            unit = ''       # seconds without the unit symbol
        ws = lambda: rng.choice(['', '', ' ', '  ', '\t'])
        out.append(f"{ws()}{num}{ws()}{unit}{ws()}")
    return ''.join(out)


def render_iso(rng, parts, frac):
    present = [i for i, p in enumerate(parts) if p is not None]
    s = 'P'
    if rng.random() < 0.2:
        s += rng.choice(['0Y', '0Y0M', '0M', '00Y'])
    def num(i):
        n = str(parts[i])
        if frac is not None and i == present[-1]:
            n += rng.choice('.,') + frac
        return n
    if parts[0] is not None:
        s += num(0) + 'D'
    if any(parts[i] is not None for i in (1, 2, 3)):
        s += 'T'
        for i, u in ((1, 'H'), (2, 'M'), (3, 'S')):
            if parts[i] is not None:
                s += num(i) + u
    if rng.random() < 0.2:
        s = rng.choice([' ', '  ']) + s + rng.choice(['', ' '])
    return s


def expected_value(parts, frac):
    present = [i for i, p in enumerate(parts) if p is not None]
    total = Fraction(0)
    for i in present:
        v = Fraction(parts[i])
        if frac is not None and i == present[-1]:
            v += Fraction(int(frac), 10 ** len(frac))
        total += v * UNITS[i]
    return total


MALFORMED = [
    '', ' ', '   ', '\t', 'P', 'PT', ' P ',
    'P1Y', 'P1M', 'P1Y2M', 'P1YT1S', 'P2MT5M', 'P1Y0M1D', 'P0Y3M',
    '1.5h30m', '1,5d2h', '0.5d 1s', '1.0h0m', 'PT1.5H30M', 'P1.5DT1H', 'PT0,5H1S',
    '-5s', '-1', '+5', '5x', 's', 'h', 'm5', 'h5', '1h2d', '1m1h', '1s1m', '1h1h', '1d1d',
    '1..5s', '1.5.5', '1.,5', '1e3', '1e3s', '1_000', '0x10', '1h 2 3', '１２s', '٣s',
    'PT1H1H', 'P1D1D', 'PT1S1M', 'T1H', 'P-1D', 'PT-1S', '1:30', '1h:30m', 'abc', 'P1W',
    '1w', '1 day', '1hour', '.5s', '5.s', ',5', 'PT.5S',
]


def malformed_twins(rng, s):
    """Strings that differ from the valid string s only by a documented no-go."""
    out = []
    body = s.strip()
    iso = body[:1] == 'P'
    # whitespace INSIDE a number
    runs = [m for m in re.finditer(r'\d{2,}', body)]
    if runs and rng.random() < 0.5:
        m = rng.choice(runs)
        cut = rng.randrange(m.start() + 1, m.end())
        out.append(body[:cut] + ' ' + body[cut:])
    if iso:
        # structure: the 'T' designator is what separates the time elements from the date part
        # (and minutes from months); without it the string is not a duration.  (A dangling 'T'
        # as in 'P1DT' is accepted by edzed and not documented as an error: not judged.)
        if 'T' in body and rng.random() < 0.5 and re.search(r'[HS]', body.split('T', 1)[1]):
            # (a lone minutes element would turn into months: refused unless zero - not used)
            out.append(body.replace('T', ''))
        r = rng.random()
        if r < 0.3 and body.lower() != body:
            out.append(body.lower())        # lower case is for the traditional format only
        elif r < 0.5:
            letters = [i for i, ch in enumerate(body) if ch.isalpha()]
            i = rng.choice(letters)
            out.append(body[:i] + body[i].lower() + body[i + 1:])
        elif r < 0.7 and len(body) > 2:
            cut = rng.randrange(1, len(body))       # whitespace inside an ISO string
            if not (body[cut - 1].isdigit() and body[cut].isdigit()):
                out.append(body[:cut] + ' ' + body[cut:])
    return out


BLOCK_TIMEOUTS = [(None, 0), (0, 0), (0.0, 0), (-1, 0), (-0.5, 0), ('0s', 0), ('0m0s', 0),
                  ('PT0S', 0), ('0', 0), ('P0DT0H', 0), (2.5, '5/2'), ('1m', 60), ('PT1M30S', 90),
                  ('1d', 86400), (1, 1), ('0.5s', '1/2'), ('1h 1s', 3601)]


def gen(ctx):
    rng = ctx.rng('gen')
    quick = ctx.tier == 'quick'
    for i, (v, secs) in enumerate(BLOCK_TIMEOUTS):
        if i % ctx.nshards == ctx.shard:
            yield {'kind': 'block_timeout', 'v': v, 'seconds': str(secs)}
    n_conv = 4000 if quick else 300000
    n_num = 8000 if quick else 1000000
    shard, nsh = ctx.shard, ctx.nshards
    # malformed strings (every shard its slice)
    for i, s in enumerate(MALFORMED):
        if i % nsh == shard:
            yield {'kind': 'malformed', 's': s}
    # generated durations
    for k in range(n_conv):
        mask = rng.randrange(1, 16)
        parts = []
        for i in range(4):
            if mask & (8 >> i):
                r = rng.random()
                if r < 0.3:
                    parts.append(rng.choice([0, 1, 23, 24, 59, 60, 72, 99, 100]))
                elif r < 0.8:
                    parts.append(rng.randrange(0, 100))
                else:
                    parts.append(rng.randrange(0, 100000))
            else:
                parts.append(None)
        frac = None
        if rng.random() < 0.5:
            frac = ''.join(rng.choice('0123456789') for _ in range(rng.randrange(1, 7)))
        yield {'kind': 'convert', 'parts': parts, 'frac': frac, 'rs': rng.randrange(1 << 30)}
    # numbers: boundaries + random
    bounds = [0, 1, 59, 60, 61, 3599, 3600, 3601, 86399, 86400, 86401, 35999, 36000, 36001,
              863999, 864000, 864001, 9, 10, 11, 10 ** 7, 10 ** 7 - 1]
    ints = []
    for b in bounds:
        for d in (-2, -1, 0, 1, 2):
            if b + d >= 0:
                ints.append(b + d)
    for mult in range(0, 120):
        for unit in (60, 3600, 86400):
            for d in (-1, 0, 1):
                v = mult * unit + d
                if 0 <= v <= 10 ** 7:
                    ints.append(v)
    ints = sorted(set(ints))
    for i, n in enumerate(ints):
        if i % nsh == shard:
            yield {'kind': 'int', 'n': n}
    for k in range(n_num):
        r = rng.random()
        if r < 0.4:
            yield {'kind': 'int', 'n': rng.randrange(0, 10 ** 7 + 1)}
        else:
            # float with 0..6 decimals, dense near unit and rounding boundaries
            dec = rng.randrange(0, 7)
            if r < 0.7:
                base = rng.choice([0, 1, 10, 60, 3600, 36000, 86400, 864000,
                                   rng.randrange(0, 200) * 60, rng.randrange(0, 50) * 3600])
                delta = rng.randrange(-2000000, 2000001)     # micro units
                x = Fraction(base) + Fraction(delta, 10 ** 6)
                if rng.random() < 0.5:
                    x = Fraction(base) + Fraction(rng.choice([-1, 1]) * rng.randrange(0, 12),
                                                  2 * 10 ** rng.randrange(1, 5))
            else:
                x = Fraction(rng.randrange(0, 10 ** 7 * 10 ** dec), 10 ** dec)
            if x < 0:
                x = -x
            yield {'kind': 'float', 'x': float(x), 'prec': rng.choice([0, 1, 2, 3, 3, 3, 4, 6]),
                   'sep': rng.choice(['', '', ' ', '  '])}
    # time_period specials
    if shard == 0:
        for v in [None, -1, -0.5, 0, 0.0, 5, 2.5, -10 ** 9, float('inf'), [], b'1s', (1,), {}]:
            yield {'kind': 'period', 'v': v}
    for k in range(150 if quick else 2000):
        v = rng.choice([rng.randrange(-1000, 1000), rng.uniform(-1000, 1000)])
        yield {'kind': 'period', 'v': v}


_RE_TS = re.compile(r'^(?:(\d+)d)?(?:(\d+)h)?(\d+)m(\d+(?:\.\d+)?)s$')


def check_timestr_format(ctx, case, s, sep, isfloat, prec):
    """Minutes and seconds always present; days/hours only when needed; normalised."""
    compact = s.replace(sep, '') if sep else s
    m = _RE_TS.match(compact)
    if not m:
        raise core.Violation('timestr-format', f"timestr output {s!r} not in d/h/m/s form")
    d, h, mi, sec = m.groups()
    if int(mi) >= 60 or float(sec) >= 60 or (h is not None and d is not None and int(h) >= 24):
        raise core.Violation('timestr-not-normalised', f"timestr output {s!r} not normalised")
    if d is not None and int(d) == 0 or (d is None and h is not None and int(h) == 0):
        raise core.Violation('timestr-needless-unit', f"timestr output {s!r} has needless units")
    if d is not None and h is None:
        raise core.Violation('timestr-format', f"timestr output {s!r}: days without hours")
    if isfloat:
        decimals = sec.split('.')[1] if '.' in sec else ''
        if len(decimals) != prec:
            raise core.Violation('timestr-precision', f"timestr({prec=}) output {s!r}")


def approx_step(x):
    if x < 1:
        return 0.001
    if x < 10:
        return 0.01
    if x < 60:
        return 0.1
    if x < 36000:
        return 1
    if x < 864000:
        return 60
    return 3600


def case_hash_small(text):
    return sum(ord(c) for c in text) + len(text)


def run_case(case, ctx):
    from edzed import utils
    kind = case['kind']
    try:
        if kind == 'malformed':
            s = case['s']
            for fn, name in ((utils.convert, 'convert'), (utils.time_period, 'time_period')):
                try:
                    val = fn(s)
                except Exception:
                    ctx.count('malformed_rejected')
                else:
                    raise core.Violation(
                        'malformed-accepted', f"{name}({s!r}) returned {val!r} instead of raising")
            if isinstance(s, str) and case_hash_small(s) % 4 == 0:
                # ... and wherever a block takes a duration, used by the block or not
                import edzed
                edzed.reset_circuit()
                for what, mk in (
                        ('Input(expiration=...)', lambda: edzed.Input(None, initdef=0, expiration=s)),
                        ('Input(persistent=True, expiration=...)',
                         lambda: edzed.Input(None, initdef=0, persistent=True, expiration=s)),
                        ('Timer(t_on=...)', lambda: edzed.Timer(None, t_on=s)),
                        ('InputExp(duration=...)', lambda: edzed.InputExp(None, duration=s)),
                        ('Repeat(interval=...)',
                         lambda: edzed.Repeat(None, dest='x', etype='e', interval=s))):
                    ctx.count('malformed_block_arguments')
                    try:
                        mk()
                    except Exception:
                        pass
                    else:
                        raise core.Violation(
                            'malformed-accepted', f"{what} with the malformed duration {s!r} "
                            "was accepted")
                edzed.reset_circuit()
            ctx.case_done(case, True, {'malformed': case['s'], 'outcome': 'rejected'})
            return
        if kind == 'convert':
            rng = random.Random(case['rs'])
            parts, frac = case['parts'], case['frac']
            exp = expected_value(parts, frac)
            fexp = float(exp)
            rends = []
            for _ in range(3):
                rends.append(render_traditional(rng, parts, frac))
            rends.append(render_iso(rng, parts, frac))
            rends.append(render_iso(rng, parts, frac))
            for s in rends:
                ctx.count('convert_calls')
                try:
                    got = utils.convert(s)
                except Exception as err:
                    raise core.Violation(
                        'valid-rejected', f"convert({s!r}) raised {err!r}, expected {fexp}")
                if not isinstance(got, float):
                    raise core.Violation('convert-type', f"convert({s!r}) -> {got!r} not a float")
                if abs(got - fexp) > 1e-9 * max(1.0, fexp):
                    raise core.Violation(
                        'convert-value', f"convert({s!r}) = {got!r}, expected {fexp!r}")
                got2 = utils.time_period(s)
                if got2 != got:
                    raise core.Violation(
                        'time_period-str', f"time_period({s!r}) = {got2!r} != convert = {got!r}")
                # malformed twins of the string just converted (same process, right after it:
                # an accepted string must not make its malformed look-alikes acceptable)
                for bad in malformed_twins(rng, s):
                    ctx.count('malformed_twins')
                    try:
                        val = utils.convert(bad)
                    except Exception:   # pylint: disable=broad-except
                        ctx.count('malformed_rejected')
                    else:
                        raise core.Violation(
                            'malformed-accepted',
                            f"convert({bad!r}) returned {val!r} instead of raising (right after "
                            f"convert({s!r}))")
            ctx.case_done(case, True, {'parts': parts, 'frac': frac, 'renderings': rends,
                                       'expected': fexp})
            return
        if kind == 'int':
            n = case['n']
            for sep in ('', ' '):
                s = utils.timestr(n, sep=sep)
                check_timestr_format(ctx, case, s, sep, False, 0)
                back = utils.convert(s)
                ctx.count('timestr_roundtrips')
                if back != n:
                    raise core.Violation(
                        'timestr-int-roundtrip', f"convert(timestr({n})={s!r}) = {back!r}")
            a = utils.timestr_approx(n)
            back = utils.convert(a)
            ctx.count('approx_checks')
            step = approx_step(n)
            if n < 36000:
                if back != n:
                    raise core.Violation(
                        'approx-int-exact', f"timestr_approx({n}) = {a!r} -> {back}, expected exact")
            elif not abs(back - n) < step:
                raise core.Violation(
                    'approx-error', f"timestr_approx({n}) = {a!r} -> {back}, step {step}")
            ctx.case_done(case, True, {'n': n, 'timestr': s, 'approx': a})
            return
        if kind == 'float':
            x, prec, sep = case['x'], case['prec'], case['sep']
            s = utils.timestr(x, sep=sep, prec=prec)
            check_timestr_format(ctx, case, s, sep, True, prec)
            back = utils.convert(s)
            ctx.count('timestr_roundtrips')
            tol = 0.5 * 10 ** -prec + 1e-9 * max(1.0, x)
            if abs(back - x) > tol:
                raise core.Violation(
                    'timestr-float-roundtrip',
                    f"convert(timestr({x!r}, prec={prec})={s!r}) = {back!r}, |diff| > {tol}")
            a = utils.timestr_approx(x, sep=sep)
            back = utils.convert(a)
            ctx.count('approx_checks')
            step = approx_step(x)
            if not abs(back - x) < step + 1e-9 * max(1.0, x):
                raise core.Violation(
                    'approx-error', f"timestr_approx({x!r}) = {a!r} -> {back}, step {step}")
            ctx.case_done(case, True, {'x': x, 'prec': prec, 'timestr': s, 'approx': a})
            return
        if kind == 'block_timeout':
            # the same conversion where blocks take durations: the time-outs of the asynchronous
            # add-on (None = the documented default of 10 s, zero/negative = 0 = disabled)
            import edzed
            edzed.reset_circuit()

            class TB(edzed.AddonAsync, edzed.SBlock):
                async def init_async(self):
                    pass

                async def stop_async(self):
                    pass
            v = case['v']
            blk = TB(None, init_timeout=v, stop_timeout=v)
            exp = 10.0 if v is None else max(0.0, float(Fraction(case['seconds'])))
            ctx.count('block_timeout_checks')
            for attr in ('init_timeout', 'stop_timeout'):
                got = getattr(blk, attr)
                if not isinstance(got, float) or abs(got - exp) > 1e-9 * max(1.0, exp):
                    raise core.Violation(
                        'block-timeout-value',
                        f"block created with {attr}={v!r}: attribute is {got!r}, expected {exp!r}")
            # ... and where a block compares two durations with each other: an output block's
            # guard_time (any notation) must not exceed its stop_timeout (any notation)
            async def job(value):
                pass
            for g in (0, '0s', None, exp, f"PT{exp}S" if exp == int(exp) else exp):
                g_sec = 0.0 if g in (0, '0s', None) else exp
                try:
                    oa = edzed.OutputAsync(None, coro=job, mode='wait', guard_time=g,
                                           stop_timeout=v, on_error=None)
                except Exception as err:
                    raise core.Violation(
                        'block-timeout-value',
                        f"OutputAsync(guard_time={g!r} (= {g_sec} s), stop_timeout={v!r} "
                        f"(= {exp} s)) refused: {err!r}")
                ctx.count('block_timeout_checks')
                if not isinstance(oa.stop_timeout, float) or abs(oa.stop_timeout - exp) > 1e-9 * max(1.0, exp):
                    raise core.Violation(
                        'block-timeout-value',
                        f"OutputAsync created with stop_timeout={v!r}: attribute is "
                        f"{oa.stop_timeout!r}, expected {exp!r}")
            edzed.reset_circuit()
            ctx.case_done(case, True, {'timeout_argument': repr(v), 'seconds': exp})
            return
        if kind == 'period':
            v = case['v']
            ctx.count('time_period_checks')
            if v is None:
                if utils.time_period(None) is not None:
                    raise core.Violation('period-none', "time_period(None) is not None")
            elif isinstance(v, (int, float)) and not isinstance(v, bool):
                got = utils.time_period(v)
                exp = float(v) if v > 0 else 0.0
                if not isinstance(got, float) or got != exp:
                    raise core.Violation(
                        'period-number', f"time_period({v!r}) = {got!r}, expected {exp!r}")
            else:
                try:
                    got = utils.time_period(v)
                except Exception:
                    pass
                else:
                    raise core.Violation(
                        'period-type-accepted', f"time_period({v!r}) returned {got!r}")
            ctx.case_done(case, True, {'time_period': repr(v)})
            return
    except core.Violation as v:
        ctx.violation(case, v.key, v.msg)
        ctx.case_done(case, True)


def run_shard(ctx):
    for case in gen(ctx):
        run_case(case, ctx)


def replay(rep, ctx):
    run_case(rep['case'], ctx)
