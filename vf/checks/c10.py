"""
C10 - a circuit that cannot settle is stopped with an error; one that settles is not.

Evaluation counter at the eval_block boundary + brute-force search for consistent assignments.
"""

import asyncio
import itertools

from .. import core, harness, hooks, vloop

PROP = 'C10'
TECHNIQUE = ('runtime monitoring: evaluation counter at the eval_block boundary (logical-step non-termination verdict) + brute-force search for consistent assignments + idle-hook consistency invariant')
LEVEL = 'exploration'
RULE = ("case = boolean network: 1..2 Input sources, 2..10 CBlocks over Not/Xor/identity/And "
        "with arbitrary (cyclic) wiring, optional loops closed through on_output events into an "
        "Input, or an acyclic fan-out-after-feedback ladder with a computed evaluation bound in "
        "(n, 3n]; + a walk over source vectors; for each vector the consistent assignments are "
        "found by brute force (<= 2^12); (a) no consistent assignment => simulation must end with "
        "an 'instability' EdzedCircuitError within 10*n evaluations of that burst; (b) acyclic "
        "with bound <= 3n => never reported unstable; (c) idle => network consistent; "
        "distinct = canonical case; non-trivial = >= 3 block evaluations counted and a verdict "
        "class (a), (b) or (c) decided")
ASSUMPTIONS = [
    "'bounded' = 10*n evaluations per burst (implementation: 3*n); evaluations counted by an "
    "instance-level eval_block wrapper that raises a harness exception at 100*n, so "
    "non-termination is decided on logical steps, never on wall time",
    "a cyclic network that has a consistent assignment may legitimately be reported unstable "
    "(either outcome accepted, idle-consistency still checked)",
    "acyclic bound: evals(c) <= 1 + sum changes(fed inputs) + sum evals(CBlock preds), "
    "changes(F) <= evals(feeder); n = number of blocks in the real circuit",
]
REQUIRED = {'unsat_vectors': 100, 'instability_detected': 100, 'acyclic_bursts': 200,
            'idle_consistency_checks': 500, 'evaluations_counted': 5000,
            'acyclic_over_n_evals': 5, 'event_loop_networks': 20}
SHARDS = {'quick': 8, 'thorough': 16}
TIMEOUT = {'quick': 300, 'thorough': 3000}


class HarnessAbort(Exception):
    pass


def node_fn(kind, vals):
    if kind == 'not':
        return not vals[0]
    if kind == 'ident':
        return vals[0]
    if kind == 'xor':
        return bool(sum(1 for v in vals if v) % 2)
    if kind == 'and':
        return all(vals)
    if kind == 'or':
        return any(vals)
    raise AssertionError(kind)


def with_inverted(val):
    """Add the values of the '_not_NAME' shortcuts (automatic inverters) of all known names."""
    val.update({'_not_' + k: not v for k, v in list(val.items()) if not k.startswith(('#', '_not_'))})
    return val


def consistent_assignments(spec, srcvals):
    """Brute force: all assignments of the CBlocks (and fed inputs) consistent with srcvals."""
    cbs = spec['cblocks']
    names = [c['name'] for c in cbs]
    fed = {f['name']: f['feeder'] for f in spec['fed']}
    out = []
    for bits in itertools.product((False, True), repeat=len(cbs)):
        val = dict(srcvals)
        val['#T'], val['#F'] = True, False      # constant inputs
        val.update(zip(names, bits))
        for fname, feeder in fed.items():
            val[fname] = val[feeder]
        with_inverted(val)
        if all(node_fn(c['kind'], [val[i] for i in c['ins']]) == val[c['name']] for c in cbs):
            out.append(bits)
            if len(out) > 3:
                break
    return out


def is_acyclic(spec):
    fed = {f['name']: f['feeder'] for f in spec['fed']}
    deps = {c['name']: [fed.get(i[5:] if i.startswith('_not_') else i,
                                i[5:] if i.startswith('_not_') else i) for i in c['ins']]
            for c in spec['cblocks']}
    state = {}

    def visit(n):
        if n not in deps:
            return True
        if state.get(n) == 1:
            return False
        if state.get(n) == 2:
            return True
        state[n] = 1
        ok = all(visit(d) for d in deps[n])
        state[n] = 2
        return ok
    return all(visit(n) for n in deps)


def eval_bound(spec):
    import functools
    cbs = {c['name']: c for c in spec['cblocks']}
    fed = {f['name']: f['feeder'] for f in spec['fed']}

    @functools.lru_cache(maxsize=None)
    def evals(name):
        n = 1
        for i in set(cbs[name]['ins']):
            if i in cbs:
                n += evals(i)
            elif i in fed:
                n += evals(fed[i])
        return n
    return sum(evals(c) for c in cbs)


def run_network(spec, walk, ctx, case):
    import edzed
    hooks.install_idle_hook()
    state = {'evals': 0, 'burst_evals': 0, 'limit': None, 'viol': None, 'idle': 0,
             'n': None, 'max_burst': 0}
    fed = {f['name']: f['feeder'] for f in spec['fed']}

    def check_consistent(circuit, where):
        val = {'#T': True, '#F': False}
        for b in circuit.getblocks():
            val[b.name] = b.output
        for name in {i for c in spec['cblocks'] for i in c['ins'] if i.startswith('_not_')}:
            # the automatic inverter behind a '_not_NAME' input must agree with NAME as well
            ctx.count('shortcut_inverters_checked')
            real = val.get(name, edzed.UNDEF)
            if real is edzed.UNDEF or bool(real) != (not val[name[5:]]):
                raise core.Violation(
                    'idle-but-inconsistent',
                    f"{where}: inverter {name} = {real!r} while {name[5:]} = {val[name[5:]]!r}")
        for c in spec['cblocks']:
            ctx.count('idle_consistency_checks')
            exp = node_fn(c['kind'], [val[i] for i in c['ins']])
            if val[c['name']] is edzed.UNDEF or bool(val[c['name']]) != bool(exp):
                raise core.Violation(
                    'idle-but-inconsistent',
                    f"{where}: {c['kind']} {c['name']} = {val[c['name']]!r} but inputs "
                    f"{[(i, val[i]) for i in c['ins']]}")
        if spec.get('retype'):
            # type-sensitive observers (a formatter): consistent = function of the CURRENT
            # output object of the source, not of an equal one
            for src in spec['sources']:
                ctx.count('type_sensitive_observers_checked')
                if val['obs_' + src] != repr(val[src]):
                    raise core.Violation(
                        'idle-but-inconsistent',
                        f"{where}: observer obs_{src} = {val['obs_' + src]!r} while {src} holds "
                        f"{val[src]!r} (repr {repr(val[src])!r})")
        for fname, feeder in fed.items():
            if val[fname] != val[feeder]:
                raise core.Violation('idle-but-inconsistent',
                                     f"{where}: fed input {fname}={val[fname]!r}, feeder {val[feeder]!r}")

    def on_idle(_q):
        state['idle'] += 1
        state['max_burst'] = max(state['max_burst'], state['burst_evals'])
        state['burst_evals'] = 0
        if state['viol'] is None:
            try:
                check_consistent(edzed.get_circuit(), f"idle point #{state['idle']}")
            except core.Violation as v:
                state['viol'] = v

    def build():
        created = {}
        for s in spec['sources']:
            if s == spec.get('faulty_src'):
                # on_output event that fails harmlessly (unknown event type) for falsy values
                sink = edzed.Counter('sinkc', initdef=0)
                created[s] = edzed.Input(s, initdef=spec['init'][s], on_output=edzed.Event(
                    sink, edzed.EventCond('inc', 'nosuch'), efilter=edzed.not_from_undef))
            elif spec.get('gate_filter', {}).get('src') == s:
                # the source's own output event passes an IfOutput filter controlled by a
                # combinational block that depends on this very source and feeds other blocks:
                # the filter reads the block's output while the change is still on its way
                created['gsink'] = edzed.Input('gsink', initdef=0)
                created[s] = edzed.Input(s, initdef=spec['init'][s], on_output=edzed.Event(
                    'gsink', 'put', efilter=edzed.IfOutput(spec['gate_filter']['ctrl'])))
                ctx.count('ifoutput_filters_controlled_by_cblocks')
            else:
                created[s] = edzed.Input(s, initdef=spec['init'][s])
        for f in spec['fed']:
            created[f['name']] = edzed.Input(f['name'], initdef=f['init'])
        if spec.get('relay'):
            # an Input that feeds no combinational block at all; its on_output event sets the
            # real source: every burst starts with the change of an unconnected block
            created['relay'] = edzed.Input('relay', initdef=spec['init'][spec['relay']],
                                           on_output=edzed.Event(spec['relay'], 'put'))
        feeders = {f['feeder']: f['name'] for f in spec['fed']}
        fed_via = {f['name']: f.get('via', 'event') for f in spec['fed']}
        keep = []
        prng = ctx.rng('perturb', core.case_hash(case)) if spec.get('perturb') else None
        for c in spec['cblocks']:
            if prng is not None:
                core.perturb_addresses(prng, keep)
            kw = {}
            if c['name'] in feeders:
                via = fed_via.get(feeders[c['name']], 'event')
                if via == 'event_repeat':
                    # the 'repeat' option inserts an automatically created Repeat block
                    kw['on_output'] = edzed.Event(feeders[c['name']], 'put', repeat=1000)
                    ctx.count('loops_through_repeat')
                elif via == 'repeat_block':
                    edzed.Repeat('rp_' + c['name'], dest=feeders[c['name']], etype='put',
                                 interval=1000)
                    kw['on_output'] = edzed.Event('rp_' + c['name'], 'put')
                    ctx.count('loops_through_repeat')
                else:
                    kw['on_output'] = edzed.Event(feeders[c['name']], 'put')
            k = c['kind']
            if k == 'not':
                blk = edzed.Not(c['name'], **kw)
            elif k == 'xor':
                blk = edzed.Xor(c['name'], **kw)
            elif k == 'and':
                blk = edzed.And(c['name'], **kw)
            elif k == 'or':
                blk = edzed.Or(c['name'], **kw)
            else:
                blk = edzed.FuncBlock(c["name"], func=lambda x: bool(x), **kw)   # identity on booleans (UNDEF -> False)
            blk.connect(*[{'#T': edzed.Const(True), '#F': False}.get(i, i) for i in c['ins']])
            created[c['name']] = blk
            orig = blk.eval_block

            def eval_block(orig=orig):
                state['evals'] += 1
                state['burst_evals'] += 1
                if state['limit'] is not None and state['burst_evals'] > 100 * state['n']:
                    raise HarnessAbort("more than 100*n evaluations in one burst")
                return orig()
            blk.eval_block = eval_block
        if spec.get('retype'):
            for src in spec['sources']:
                edzed.FuncBlock('obs_' + src, func=repr).connect(src)
        state['n'] = len(list(edzed.get_circuit().getblocks()))
        state['limit'] = 10 * state['n']
        return created

    result = {'stopped_at': None, 'error': None}

    async def drive(sim, created):
        await harness.settle(3)
        if spec.get('rapid'):
            # another task changes the source in every single iteration of the event loop
            ctx.count('rapid_source_changes')
            src = created[spec['sources'][0]]
            for k in range(14):
                if not sim.alive():
                    break
                edzed.ExtEvent(src, 'put').send(bool(k % 2) != spec['init'][spec['sources'][0]])
                await asyncio.sleep(0)
            await harness.settle(4)
        if spec.get('storm'):
            # a backlog: far more than 3 x (number of blocks) output changes of one sequential
            # block are waiting when the simulator wakes up - one batch, little work
            ctx.count('backlogs_of_source_changes')
            src = created[spec['sources'][0]]
            v0 = spec['init'][spec['sources'][0]]
            # (an odd number of puts: the last one restores the initial value v0, which is what
            # the oracle's source vector assumes)
            for k in range(2 * (2 * state['n'] + 3) + 1):
                if not sim.alive():
                    break
                edzed.ExtEvent(src, 'put').send(bool(k % 2) != bool(v0))
            await harness.settle(4)
            state['burst_evals'] = 0
        for step, vec in enumerate(walk):
            result['cur_step'] = step
            if step:
                state['burst_evals'] = 0
                for s, v in vec.items():
                    try:
                        if s == spec.get('relay'):
                            ctx.count('relayed_changes')
                            edzed.ExtEvent(created['relay'], 'put').send(v)
                        else:
                            edzed.ExtEvent(created[s], 'put').send(v)
                    except edzed.EdzedUnknownEvent:
                        ctx.count('harmless_event_failures')
                await harness.settle(4)
            state['max_burst'] = max(state['max_burst'], state['burst_evals'])
            if not sim.alive():
                result['stopped_at'] = step
                return
            if spec.get('retype'):
                # the same values again as equal objects of another type (True -> 1 -> 1.0):
                # not a change; the network must still describe the objects the sources hold
                for sname in spec['sources']:
                    cur = created[sname].output
                    other = {bool: int, int: float, float: bool}.get(type(cur))
                    if other is not None and (step + len(sname)) % 2:
                        edzed.ExtEvent(created[sname], 'put').send(other(cur))
                await harness.settle(2)
                if sim.alive() and state['viol'] is None:
                    try:
                        check_consistent(edzed.get_circuit(), f"after equal re-puts, step {step}")
                    except core.Violation as v:
                        state['viol'] = v
        return True

    async def run_main(loop):
        # the same, but the circuit is run by edzed.run() and fed by a supporting coroutine
        edzed.reset_circuit()
        created = build()
        sim = harness.Sim()
        out_run.update(sim=sim, objs=created, started=False, result=None)

        async def feeder():
            await sim.circuit.wait_init()
            out_run['started'] = True
            try:
                out_run['result'] = await drive(sim, created)
            except asyncio.CancelledError:
                # run() cancels its supporting tasks when the simulation has ended
                if result['stopped_at'] is None and not sim.circuit.is_ready():
                    result['stopped_at'] = result.get('cur_step', 0)
                raise
            finally:
                # a farewell event ('switch off on exit'): refused when the circuit is shutting
                # down, i.e. this supporting task FAILS during the shutdown
                edzed.ExtEvent(created[spec['sources'][0]], 'put').send(False)
        sim.task = asyncio.create_task(edzed.run(feeder()), name='vf: runtask')
        try:
            await sim.task
            out_run['run_exc'] = None
        except BaseException as err:    # pylint: disable=broad-except
            out_run['run_exc'] = err

    out_run = {}
    hooks.set_idle_callback(on_idle)
    try:
        if spec.get('via_run'):
            ctx.count('run_with_feeding_coroutine')
            loop, _r, exc = vloop.run(run_main)
            edzed.reset_circuit()
            out = dict(out_run, loop=loop, exc=exc)
            if not out['started'] and out['sim'].circuit.error is not None:
                out['started'] = False
        else:
            out = harness.run_sim(build, drive)
    finally:
        hooks.set_idle_callback(None)
    if out['exc'] is not None and not isinstance(out['exc'], (vloop.Deadlock,)):
        raise out['exc']
    sim = out['sim']
    err = sim.circuit.error
    n = state['n']
    ctx.count('evaluations_counted', state['evals'])
    acyclic = is_acyclic(spec)
    if spec['fed']:
        ctx.count('event_loop_networks')
    if state['viol'] is not None:
        raise state['viol']
    # which step stopped the simulation (None = survived the whole walk)
    stopped = result['stopped_at']
    if not out.get('started'):
        stopped = 0
    unstable_err = (isinstance(err, edzed.EdzedCircuitError) and 'instab' in str(err).lower())
    if spec.get('via_run') and unstable_err:
        ctx.count('instability_reported_by_run')
        if out.get('run_exc') is not err:
            raise core.Violation(
                'run-did-not-raise-the-instability-error',
                f"the simulation ended with {err!r}, but edzed.run() (feeding coroutine failed "
                f"with a refused event during the shutdown) raised {out.get('run_exc')!r}")
    if isinstance(err, HarnessAbort) or state['max_burst'] > 10 * n:
        raise core.Violation(
            'not-stopped-after-bounded-evaluations',
            f"{state['max_burst']} evaluations in one burst of a circuit with n={n} blocks "
            f"(bound 10*n = {10 * n}); error={err!r}")
    for step, vec in enumerate(walk):
        srcvals = dict(walk[0])
        for k in range(1, step + 1):
            srcvals.update(walk[k])
        if spec.get('single_path'):
            sat = [{}]      # acyclic without feedback: always consistent (no brute force)
        else:
            sat = consistent_assignments(spec, srcvals)
        if stopped is not None and step > stopped:
            break
        if not sat:
            ctx.count('unsat_vectors')
            if stopped != step:
                raise core.Violation(
                    'unsettleable-network-not-stopped',
                    f"source vector {srcvals} admits no consistent assignment but the simulation "
                    f"kept running (stopped_at={stopped}, error={err!r})")
            if not unstable_err:
                raise core.Violation(
                    'wrong-error-for-instability', f"unsettleable network ended with {err!r}")
            ctx.count('instability_detected')
            break
        if stopped == step:
            # stopped although a consistent assignment exists
            if acyclic:
                bound = 0 if spec.get('single_path') else eval_bound(spec)
                if bound <= 3 * n:
                    raise core.Violation(
                        'acyclic-network-reported-unstable',
                        f"acyclic network (evaluation bound {bound} <= 3n = {3 * n}) ended with "
                        f"{err!r} at step {step}")
                ctx.count('acyclic_over_bound_stopped')
            elif not unstable_err:
                raise core.Violation('unexpected-error', f"cyclic network ended with {err!r}")
            else:
                ctx.count('satisfiable_cyclic_reported_unstable')
            break
        if acyclic:
            ctx.count('acyclic_bursts')
    if acyclic and state['max_burst'] > n:
        ctx.count('acyclic_over_n_evals')
    if acyclic and state['max_burst'] > 3 * len(spec['cblocks']):
        ctx.count('acyclic_over_3x_cblocks_evals')
    return state


# ---------------------------------------------------------------------------------------------
def random_network(rng):
    nsrc = rng.choice([1, 1, 2])
    sources = [f"s{i}" for i in range(nsrc)]
    ncb = rng.randrange(2, 9)
    names = [f"c{i}" for i in range(ncb)]
    fed = []
    cbs = []
    for i, name in enumerate(names):
        kind = rng.choice(['not', 'not', 'xor', 'ident', 'and', 'or'])
        k = 1 if kind in ('not', 'ident') else rng.choice([2, 2, 3])
        pool = sources + names + [f['name'] for f in fed]
        ins = [rng.choice(pool) for _ in range(k)]
        cbs.append({'name': name, 'kind': kind, 'ins': ins})
        if rng.random() < 0.2:
            fed.append({'name': f"f{i}", 'feeder': name, 'init': rng.random() < 0.5,
                        'via': rng.choice(['event', 'event', 'event_repeat', 'repeat_block'])})
    # fed inputs must be used by someone to close a loop: rewire a random input
    for f in fed:
        c = rng.choice(cbs)
        c['ins'][rng.randrange(len(c['ins']))] = f['name']
    if rng.random() < 0.3:
        # a block fed by constants only (Const object / plain constant) and a consumer of it:
        # nothing ever "changes" there, still its output must agree with its inputs when idle
        kind = rng.choice(['not', 'and', 'or', 'xor', 'ident'])
        k = 1 if kind in ('not', 'ident') else rng.choice([1, 2, 3])
        cbs.append({'name': 'konst', 'kind': kind, 'ins': [rng.choice(['#T', '#F']) for _ in range(k)]})
        cbs.append({'name': 'kuser', 'kind': rng.choice(['xor', 'and', 'or']),
                    'ins': ['konst', rng.choice(sources)]})
    if rng.random() < 0.3:
        # some source inputs are taken through the '_not_NAME' shortcut (automatic inverters)
        for c in cbs:
            c['ins'] = ['_not_' + i if i in sources and rng.random() < 0.4 else i for i in c['ins']]
    spec = {'sources': sources, 'init': {s: rng.random() < 0.5 for s in sources},
            'fed': fed, 'cblocks': cbs}
    if rng.random() < 0.15:
        spec['faulty_src'] = rng.choice(sources)
    return spec


def ring(rng):
    length = rng.randrange(1, 8)
    nots = rng.randrange(0, length + 1)
    kinds = ['not'] * nots + ['ident'] * (length - nots)
    rng.shuffle(kinds)
    cbs = []
    for i, k in enumerate(kinds):
        cbs.append({'name': f"c{i}", 'kind': k, 'ins': [f"c{(i - 1) % length}"]})
    spec = {'sources': ['s0'], 'init': {'s0': False}, 'fed': [], 'cblocks': cbs}
    if rng.random() < 0.5 and length > 1:
        # gate the ring with the source
        cbs.append({'name': 'g', 'kind': rng.choice(['and', 'xor', 'or']),
                    'ins': [f"c{length - 1}", 's0']})
        cbs[0]['ins'] = ['g']
    return spec


def ladder(rng):
    """Acyclic: chain of feeder -> fed input -> fan-out; every CBlock also reads the source."""
    depth = rng.randrange(1, 5)
    fan = rng.randrange(2, 7)
    cbs = []
    fed = []
    prev = None
    for d in range(depth):
        ins = ['s0'] + ([prev] if prev else [])
        cbs.append({'name': f"k{d}", 'kind': rng.choice(['xor', 'not', 'ident', 'xor']),
                    'ins': ins[-1:] if rng.random() < 0.3 and prev else ins})
        if cbs[-1]['kind'] in ('not', 'ident'):
            cbs[-1]['ins'] = cbs[-1]['ins'][-1:]
        fed.append({'name': f"f{d}", 'feeder': f"k{d}", 'init': rng.random() < 0.5,
                    'via': rng.choice(['event', 'event', 'event', 'event_repeat', 'repeat_block'])})
        prev = f"f{d}"
        for x in range(fan if d == depth - 1 else rng.randrange(0, 3)):
            cbs.append({'name': f"x{d}_{x}", 'kind': rng.choice(['xor', 'and', 'or']),
                        'ins': [prev, 's0']})
    return {'sources': ['s0'], 'init': {'s0': rng.random() < 0.5}, 'fed': fed, 'cblocks': cbs}


def reconv(rng):
    """
    Acyclic, purely combinational, reconvergent: b_i = xor(s0, p_0 .. p_{i-1}) with pass-through
    copies p_j = ident(b_j).  The pass-throughs hide the dependencies from the simulator's
    'fewest pending direct predecessors' heuristic, so the number of evaluations depends on how it
    breaks ties (set iteration order = object addresses) and may approach the number of paths.
    Idle sources bring 3*n above that number.
    """
    k = rng.choice([2, 3, 3, 4])
    cbs = []
    for i in range(k):
        cbs.append({'name': f"b{i}", 'kind': 'xor', 'ins': ['s0'] + [f"p{j}" for j in range(i)]})
        if i < k - 1:
            cbs.append({'name': f"p{i}", 'kind': 'ident', 'ins': [f"b{i}"]})
    rng.shuffle(cbs)
    spec = {'sources': ['s0'], 'init': {'s0': False}, 'fed': [], 'cblocks': cbs, 'perturb': True}
    bound = eval_bound(spec)
    need = max(0, -(-bound // 3) - len(cbs) - 1)
    for x in range(need + rng.choice([0, 1, 3])):
        spec['sources'].append(f"idle{x}")
        spec['init'][f"idle{x}"] = False
    return spec


def big_chain(rng):
    """
    A long single-path chain of inverters/identities (every block is reached by a change along
    exactly one path), created in random order; some blocks have a side input from the source.
    """
    length = rng.choice([66, 70, 100, 130, 200, 300])
    cbs = []
    for i in range(length):
        prev = 's0' if i == 0 else f"c{i - 1}"
        if i and rng.random() < 0.05:
            cbs.append({'name': f"c{i}", 'kind': 'xor', 'ins': [prev, '#F']})
        else:
            cbs.append({'name': f"c{i}", 'kind': rng.choice(['not', 'ident']), 'ins': [prev]})
    rng.shuffle(cbs)
    return {'sources': ['s0'], 'init': {'s0': rng.random() < 0.5}, 'fed': [], 'cblocks': cbs,
            'single_path': True, 'perturb': True, 'rapid': rng.random() < 0.6}


def gen(ctx):
    rng = ctx.rng('gen')
    n = 300 if ctx.tier == 'quick' else 8000
    for i in range(n):
        r = rng.random()
        if r < 0.03:
            spec = big_chain(rng)
            kind = 'big_chain'
            ctx.count('long_single_path_chains')
        elif r < 0.22:
            spec = reconv(rng)
            kind = 'reconv'
        elif r < 0.5:
            spec = random_network(rng)
            kind = 'random'
        elif r < 0.65:
            spec = ring(rng)
            kind = 'ring'
        else:
            spec = ladder(rng)
            kind = 'ladder'
            # idle sequential blocks: they count for the size of the circuit (the documented
            # limit is 'several times the circuit'), not for the work to be done
            for x in range(rng.choice([0, 0, 2, 4, 8])):
                spec['sources'].append(f"idle{x}")
                spec['init'][f"idle{x}"] = False
            nblocks = len(spec['cblocks']) + len(spec['fed']) + len(spec['sources'])
            if rng.random() < 0.5:
                # prefer work-heavy ladders: more evaluations than 3 x (number of CBlocks) may be
                # needed, still within the documented limit of 3 x (number of all blocks)
                for _ in range(30):
                    if 3 * len(spec['cblocks']) < eval_bound(spec) <= 3 * nblocks:
                        break
                    spec = ladder(rng)
                    for x in range(rng.choice([2, 4, 8, 12])):
                        spec['sources'].append(f"idle{x}")
                        spec['init'][f"idle{x}"] = False
                    nblocks = len(spec['cblocks']) + len(spec['fed']) + len(spec['sources'])
                else:
                    continue
                kind = 'heavy_ladder'
            if eval_bound(spec) > 3 * nblocks:
                continue
        walk = [dict(spec['init'])]
        steps = rng.randrange(2, 7)
        if kind == 'reconv':
            steps = rng.randrange(6, 14)
        if kind == 'ladder' and rng.random() < 0.35:
            spec['relay'] = 's0'
            steps = rng.randrange(8, 16)
        for _ in range(steps):
            s = rng.choice([x for x in spec['sources'] if not x.startswith('idle')])
            cur = {}
            for w in walk:
                cur.update(w)
            walk.append({s: not cur[s]})
        if kind in ('random', 'ring') and rng.random() < 0.25:
            spec['via_run'] = True
        elif rng.random() < 0.25:
            spec['retype'] = True
        if not spec.get('faulty_src') and rng.random() < 0.15:
            spec['storm'] = True
        if rng.random() < 0.3 and not spec.get('relay') and not spec.get('faulty_src'):
            cands = [(s, c['name']) for c in spec['cblocks'] for s in spec['sources']
                     if s in c['ins'] and any(c['name'] in d['ins'] for d in spec['cblocks'])]
            if cands:
                src, ctrl = rng.choice(cands)
                spec['gate_filter'] = {'src': src, 'ctrl': ctrl}
        yield {'kind': kind, 'spec': spec, 'walk': walk}


def run_case(case, ctx):
    try:
        state = run_network(case['spec'], case['walk'], ctx, case)
    except core.Violation as v:
        ctx.violation(case, v.key, v.msg)
        ctx.case_done(case, True)
        return
    ctx.case_done(case, state['evals'] >= 3, {
        'kind': case['kind'], 'cblocks': case['spec']['cblocks'], 'fed': case['spec']['fed'],
        'walk': case['walk'], 'evaluations': state['evals'], 'max_burst': state['max_burst'],
        'n': state['n']})


def run_shard(ctx):
    for case in gen(ctx):
        run_case(case, ctx)


def replay(rep, ctx):
    run_case(rep['case'], ctx)
