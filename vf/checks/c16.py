"""
C16 - event filters form an ordered pipeline that can edit or veto an event.

Reference model of the pipeline (through the real Event.send with probe destinations inside a
running simulation) + truth tables / reference models of the bundled filters (direct calls).
"""

import copy
import functools
import collections
import collections.abc
import itertools

from .. import core, harness, vloop

PROP = 'C16'
TECHNIQUE = ('runtime monitoring: reference left-to-right pipeline model and truth tables compared with the real filters, inside Event.send and called directly')
LEVEL = 'exploration'
RULE = ("cases: (a) pipeline = up to 3 scripted filters (pass/reject variants, new-dict edit, "
        "in-place edit) + input data, sent with the real Event.send() to a probe block; every "
        "filter logs the data it saw; (b) Edge: all 24 flag combinations x all (previous,value) "
        "pairs over 7 values (exhaustive); (c) Delta random walks; (d) IfOutput / "
        "NotIfInitialized against changing control blocks; (e) DataEdit: all chains of <=3 "
        "(quick) / <=4 (thorough) operation instances x all 8 input dicts over keys a,b,c "
        "(exhaustive), class-level and instance-level chaining, independence; "
        "distinct = canonical case; non-trivial = at least one filter call compared")
ASSUMPTIONS = [
    "reference pipeline: left to right; MutableMapping result replaces the data, other truthy "
    "passes, falsy stops and send() returns False",
    "DataEdit reference = the dictionary operations of docs/filters.rst; copy/rename/modify of a "
    "missing key raise KeyError (documented 'must exist'); rename(src,src) not generated",
    "the filter documented as NotIfInitialized exists in the code as IfNotIitialized; whichever "
    "name exists is used (naming not judged)",
]
REQUIRED = {'pipeline_sends': 300, 'filter_calls_logged': 300, 'edge_cells': 1000,
            'delta_steps': 500, 'dataedit_chains': 1000, 'ifoutput_checks': 50, 'conditional_pipeline_events': 10,
            'ifnotinit_checks': 4, 'pipeline_rejections': 50, 'pipeline_deliveries': 50}
SHARDS = {'quick': 8, 'thorough': 16}
TIMEOUT = {'quick': 300, 'thorough': 3000}

FKINDS = ['pass_true', 'pass_obj', 'rej_false', 'rej_none', 'rej_zero', 'rej_empty',
          'edit_new', 'edit_inplace_true', 'edit_inplace_ret', 'edit_inplace_rej', 'empty_dict',
          'edit_new_drop', 'negate_value', 'edit_userdict', 'empty_chainmap', 'edit_names']


def apply_script(kind, n, data):
    """Reference + implementation of one scripted filter.  Returns what the filter returns."""
    if kind == 'pass_true':
        return True
    if kind == 'pass_obj':
        return ('x', 1, [0], 3.5)[n % 4]
    if kind == 'rej_false':
        return False
    if kind == 'rej_none':
        return None
    if kind == 'rej_zero':
        return 0
    if kind == 'rej_empty':
        return ('', (), [], 0.0)[n % 4]
    if kind == 'edit_new':
        new = dict(data)
        new[f"k{n}"] = n
        return new
    if kind == 'edit_new_drop':
        new = {k: v for k, v in data.items() if k != 'value'}
        new[f"d{n}"] = True
        return new
    if kind == 'empty_dict':
        return {}
    if kind == 'negate_value':
        new = dict(data)
        new['value'] = not data.get('value')
        return new
    if kind == 'edit_names':
        # no item name is reserved: items named like parameters of the delivery path
        return {**data, 'etype': f"t{n}", 'data': n, 'dest': None, 'name': 'n'}
    if kind == 'edit_userdict':
        # any MutableMapping is new event data, not only a dict
        return collections.UserDict({**data, f"u{n}": n})
    if kind == 'empty_chainmap':
        return collections.ChainMap()       # an empty (falsy) mapping is still a mapping
    if kind == 'edit_inplace_true':
        data[f"i{n}"] = n
        return True
    if kind == 'edit_inplace_ret':
        data[f"r{n}"] = n
        data.pop('x', None)
        return data
    if kind == 'edit_inplace_rej':
        data[f"j{n}"] = n
        return None
    raise AssertionError(kind)


def ref_pipeline(kinds, data, source):
    """Return (delivered, final_data, seen) per the documentation."""
    data = dict(data)
    data['source'] = source
    seen = []
    for n, kind in enumerate(kinds):
        seen.append(dict(data))
        ret = apply_script(kind, n, data)
        if isinstance(ret, collections.abc.MutableMapping):
            data = ret
        elif not ret:
            return False, None, seen
    return True, data, seen


def gen_pipeline_cases(ctx):
    rng = ctx.rng('pipe')
    shard, nsh = ctx.shard, ctx.nshards
    idx = 0
    # all pipelines of <=2 filters (quick) / <=3 (thorough), one data shape each
    maxlen = 2 if ctx.tier == 'quick' else 3
    for length in range(0, maxlen + 1):
        for kinds in itertools.product(FKINDS, repeat=length):
            idx += 1
            if idx % nsh == shard:
                yield {'part': 'pipeline', 'kinds': list(kinds),
                       'data': {'value': idx % 5, 'x': 'y'}, 'as': ('list', 'tuple', 'single')[idx % 3],
                       'cond': (None, 'tf', 'tn', 'nf')[(idx // 3) % 4], 'enum': True}
    for _ in range(450 if ctx.tier == 'quick' else 40000):
        kinds = [rng.choice(FKINDS) for _ in range(3)]
        data = {k: rng.choice([0, 1, None, 'v', (1,)]) for k in rng.sample(
            ['value', 'previous', 'x', 'extra', 'trigger'], rng.randrange(0, 5))}
        case = {'part': 'pipeline', 'kinds': kinds, 'data': data, 'as': rng.choice(['list', 'tuple'])}
        if rng.random() < 0.35:
            case['cond'] = rng.choice(['tf', 'tn', 'nf'])
        yield case


def run_pipeline_batch(batch, ctx):
    import edzed
    hist = core.History()

    class Dest(edzed.SBlock):
        def init_regular(self):
            self.set_output(0)

        def _event(self, etype, data):
            hist.log('recv', self.name, etype, dict(data))
            return 'handled'

    class DestP(edzed.AddonPersistence, Dest):
        """A destination with the persistence add-on in its hierarchy (as Input, Counter, FSM)."""
        def _restore_state(self, state):
            self.set_output(state)

    class Src(edzed.SBlock):
        def init_regular(self):
            self.set_output(0)

    def mk_filter(ci, n, kind):
        def efilter(data):
            hist.log('filter', ci, n, dict(data))
            return apply_script(kind, n, data)
        efilter.__name__ = f"f_{ci}_{n}_{kind}"
        if (ci + n) % 3 == 0:
            # a callable object instead of a function (like Edge, DataEdit, functools.partial
            # objects it has no __name__)
            return functools.partial(efilter)
        return efilter

    events = []

    def build():
        Src('src')
        for ci, case in enumerate(batch):
            (DestP if ci % 3 == 1 else Dest)(f"dest{ci}")
            filters = [mk_filter(ci, n, k) for n, k in enumerate(case['kinds'])]
            if case['as'] == 'tuple':
                filters = tuple(filters)
            elif case['as'] == 'single' and len(filters) == 1:
                filters = filters[0]
            elif not filters and ci % 2:
                filters = None
            # destination by name or by object
            dest = f"dest{ci}" if ci % 2 else edzed.get_circuit().findblock(f"dest{ci}")
            etype = f"ev{ci}"
            cond = case.get('cond')
            if cond:
                # conditional event type: resolved from the 'value' item the destination
                # receives, i.e. after the filters
                etype = edzed.EventCond(etype + 't' if cond[0] == 't' else None,
                                        etype + 'f' if cond[1] == 'f' else None)
            events.append(edzed.Event(dest, etype, efilter=filters))
        return None

    async def drive(sim, _objs):
        src = sim.circuit.findblock('src')
        for ci, case in enumerate(batch):
            del hist.entries[:]
            data = copy.deepcopy(case['data'])
            try:
                ret = events[ci].send(src, **data)
            except Exception as err:
                ctx.violation(case, 'pipeline-send-raised', f"Event.send raised {err!r}")
                ctx.case_done(case, True)
                if not sim.alive():
                    return
                continue
            ctx.count('pipeline_sends')
            exp_deliv, exp_data, exp_seen = ref_pipeline(case['kinds'], case['data'], 'src')
            seen = [e[5] for e in hist.kinds('filter')]
            order = [e[4] for e in hist.kinds('filter')]
            recv = hist.kinds('recv')
            ctx.count('filter_calls_logged', len(seen))
            try:
                if order != list(range(len(exp_seen))):
                    raise core.Violation(
                        'filter-order', f"filters {case['kinds']} were called in order {order}, "
                        f"expected {list(range(len(exp_seen)))}")
                if seen != exp_seen:
                    raise core.Violation(
                        'filter-saw-wrong-data',
                        f"filters {case['kinds']}: data seen {seen}, expected {exp_seen}")
                if ret is not exp_deliv:
                    raise core.Violation(
                        'send-return', f"filters {case['kinds']}: send() returned {ret!r}, "
                        f"expected {exp_deliv}")
                if exp_deliv:
                    ctx.count('pipeline_deliveries')
                    cond = case.get('cond')
                    exp_etype = f"ev{ci}"
                    if cond:
                        ctx.count('conditional_pipeline_events')
                        branch = 0 if exp_data.get('value') else 1
                        exp_etype = (exp_etype + 'tf'[branch]) if cond[branch] != 'n' else None
                    if exp_etype is None:
                        if recv:
                            raise core.Violation(
                                'conditional-event-wrong-branch',
                                f"filters {case['kinds']} cond {cond}: filtered value "
                                f"{exp_data.get('value')!r} selects 'no event' but {recv} delivered")
                        raise StopIteration
                    if len(recv) != 1:
                        raise core.Violation(
                            'delivery-count' if not cond else 'conditional-event-wrong-branch',
                            f"filters {case['kinds']} cond {cond}: {len(recv)} deliveries, expected "
                            f"one {exp_etype!r} (filtered data {exp_data})")
                    _, _, _, dname, etype, rdata = recv[0]
                    if dname != f"dest{ci}" or etype != exp_etype:
                        raise core.Violation('wrong-destination', f"delivered to {dname}/{etype}")
                    if rdata != exp_data:
                        raise core.Violation(
                            'destination-data', f"filters {case['kinds']}: destination got "
                            f"{rdata}, expected {exp_data}")
                else:
                    ctx.count('pipeline_rejections')
                    if recv:
                        raise core.Violation(
                            'delivered-after-veto',
                            f"filters {case['kinds']}: vetoed event was delivered: {recv}")
            except StopIteration:
                pass
            except core.Violation as v:
                ctx.violation(case, v.key, v.msg, history=hist.dump())
            ctx.case_done(case, bool(case['kinds']),
                          {'filters': case['kinds'], 'data': case['data'],
                           'delivered': exp_deliv, 'final': exp_data},
                          enumerated=case.get('enum', False))

    out = harness.run_sim(build, drive, debug=bool(batch) and core.case_hash64(batch[0]) % 2 == 0)
    if out['exc'] is not None and not isinstance(out['exc'], vloop.Deadlock):
        raise out['exc']
    if not out.get('started'):
        raise core.Inconclusive(f"pipeline circuit did not start: {out['sim'].init_exc}")


# ---------------- Edge / not_from_undef / Delta ----------------
def edge_cases(ctx):
    if ctx.shard != 0:
        return
    yield {'part': 'edge'}


def run_edge(case, ctx):
    import edzed
    U = edzed.UNDEF
    values = [U, 0, '', None, 1, 'x', [0]]
    n = 0
    for rise, fall, u_rise, u_fall in itertools.product(
            (False, True), (False, True), (None, False, True), (False, True)):
        flt = edzed.Edge(rise=rise, fall=fall, u_rise=u_rise, u_fall=u_fall)
        ur = rise if u_rise is None else u_rise
        for prev, val in itertools.product(values, values):
            if val is U:
                continue
            if prev is U:
                exp = ur if val else u_fall
            else:
                exp = (not bool(prev) and bool(val) and rise) or (bool(prev) and not bool(val) and fall)
            got = flt({'previous': prev, 'value': val, 'source': 's', 'trigger': 'output'})
            ctx.count('edge_cells')
            n += 1
            if bool(got) != bool(exp) or isinstance(got, dict):
                ctx.violation(
                    {'part': 'edge', 'flags': [rise, fall, u_rise, u_fall], 'prev': repr(prev),
                     'value': repr(val)},
                    'edge-truth-table',
                    f"Edge(rise={rise}, fall={fall}, u_rise={u_rise}, u_fall={u_fall}) on "
                    f"{prev!r} -> {val!r} returned {got!r}, expected {bool(exp)}")
    # not_from_undef
    for prev in values:
        for val in values[1:]:
            got = edzed.not_from_undef({'previous': prev, 'value': val})
            ctx.count('edge_cells')
            if bool(got) != (prev is not U):
                ctx.violation({'part': 'not_from_undef', 'prev': repr(prev)}, 'not_from_undef',
                              f"not_from_undef(previous={prev!r}) returned {got!r}")
    for k in range(n // 100):
        ctx.case_done({'part': 'edge', 'slice': k}, True,
                      {'part': 'Edge truth table slice', 'cells': 100}, enumerated=True)


def delta_cases(ctx):
    rng = ctx.rng('delta')
    for _ in range(180 if ctx.tier == 'quick' else 30000):
        floats = rng.random() < 0.5
        delta = rng.choice([0, 1, 2, 5, 0.5, 2.5, 0.1]) if floats else rng.choice([0, 1, 2, 3, 10])
        walk = []
        v = rng.randrange(-5, 6)
        for _ in range(rng.randrange(2, 30)):
            if floats:
                v = round(v + rng.uniform(-3, 3), rng.randrange(0, 3))
            else:
                v = v + rng.randrange(-4, 5)
            if floats and rng.random() < 0.12:
                # a sensor glitch: not-a-number or an infinite reading (possibly repeated); the
                # difference to the last passed value is then NaN (never '>= delta') or infinite
                walk.append(rng.choice(['nan', 'inf', '-inf', 'inf']))
                if rng.random() < 0.5:
                    walk.append(walk[-1])
                continue
            walk.append(v)
        yield {'part': 'delta', 'delta': delta, 'walk': walk}


def run_delta(case, ctx):
    import edzed
    flt = edzed.Delta(case['delta'])
    last = None
    first = True
    walk = [float(v) if isinstance(v, str) else v for v in case['walk']]
    for k, v in enumerate(walk):
        if isinstance(case['walk'][k], str):
            ctx.count('delta_nonfinite_values')
        got = flt({'value': v, 'previous': walk[k - 1] if k else edzed.UNDEF})
        exp = first or abs(last - v) >= case['delta']
        ctx.count('delta_steps')
        if bool(got) != exp:
            ctx.violation(case, 'delta', f"Delta({case['delta']}) step {k}: value {v}, last passed "
                          f"{last}: returned {got!r}, expected {exp}")
            break
        if exp:
            last = v
            first = False
    ctx.case_done(case, True, case)


# ---------------- DataEdit ----------------
def _inc(x):
    return x + 1


def de_ops(blk):
    """Operation instances: (name, args, kwargs, reference function)."""
    import edzed
    DE = edzed.DataEdit

    def r_add(kw):
        return lambda d: {**d, **kw}

    def r_setdefault(kw):
        return lambda d: {**kw, **d}

    def r_copy(s, t):
        def f(d):
            d = dict(d)
            d[t] = d[s]
            return d
        return f

    def r_rename(s, t):
        def f(d):
            d = dict(d)
            d[t] = d[s]
            del d[s]
            return d
        return f

    def r_delete(keys):
        return lambda d: {k: v for k, v in d.items() if k not in keys}

    def r_permit(keys):
        return lambda d: {k: v for k, v in d.items() if k in keys}

    def r_modify(key, what):
        def f(d):
            d = dict(d)
            cur = d[key]
            if what == 'inc':
                d[key] = cur + 1
            elif what == 'DELETE':
                del d[key]
            elif what == 'REJECT':
                return None
            elif what == 'ident':
                d[key] = cur
            return d
        return f

    funcs = {'inc': _inc, 'DELETE': lambda x: DE.DELETE, 'REJECT': lambda x: DE.REJECT,
             'ident': lambda x: x}
    ops = []
    for kw in ({'a': 9}, {'b': 9}, {'a': 8, 'c': 7}):
        ops.append(('add', (), kw, r_add(kw)))
    for kw in ({'a': 9}, {'c': 9, 'b': 8}):
        ops.append(('setdefault', (), kw, r_setdefault(kw)))
    for s, t in (('a', 'b'), ('b', 'c'), ('c', 'a'), ('a', 'a')):
        ops.append(('copy', (s, t), {}, r_copy(s, t)))
    for s, t in (('a', 'b'), ('c', 'a')):
        ops.append(('rename', (s, t), {}, r_rename(s, t)))
    for keys in (('a',), ('b', 'c'), ()):
        ops.append(('delete', keys, {}, r_delete(keys)))
    for keys in (('a',), ('a', 'b'), ()):
        ops.append(('permit', keys, {}, r_permit(keys)))
    for key, what in (('a', 'inc'), ('b', 'DELETE'), ('c', 'REJECT'), ('a', 'REJECT'), ('b', 'ident')):
        ops.append(('modify', (key, funcs[what]), {}, r_modify(key, what)))
        ops[-1] = ops[-1] + (f"{key}:{what}",)
    ops.append(('add_output', ('c', blk), {}, lambda d: {**d, 'c': blk.output}))
    return ops


def dataedit_cases(ctx):
    maxlen = 3 if ctx.tier == 'quick' else 4
    yield {'part': 'dataedit', 'maxlen': maxlen}


def run_dataedit(case, ctx):
    import edzed
    DE = edzed.DataEdit
    edzed.reset_circuit()
    blk = edzed.Input('desrc', initdef=5)
    ops = de_ops(blk)
    dicts = []
    for mask in range(8):
        dicts.append({k: v for i, (k, v) in enumerate((('a', 1), ('b', 2), ('c', 3))) if mask >> i & 1})
    idx = 0
    nviol = 0
    for length in range(0, case['maxlen'] + 1):
        for chain in itertools.product(range(len(ops)), repeat=length):
            idx += 1
            if idx % ctx.nshards != ctx.shard:
                continue
            # build the filter: class-level first call or instance-level
            style = idx % 3
            flt = DE() if style == 0 or not chain else None
            for oi in chain:
                name, args, kwargs = ops[oi][0], ops[oi][1], ops[oi][2]
                target = DE if flt is None else flt
                flt2 = getattr(target, name)(*args, **kwargs)
                if flt is not None and flt2 is not flt:
                    ctx.violation({'part': 'dataedit', 'chain': [ops[i][0] for i in chain]},
                                  'dataedit-chain-new-object',
                                  "instance-level chaining returned a different object")
                flt = flt2
            if flt is None:
                flt = DE()
            desc = [(ops[i][0], repr(ops[i][6]) if len(ops[i]) > 6 else repr(ops[i][1] or ops[i][2]))
                    for i in chain]
            for d in dicts:
                exp = dict(d)
                exp_exc = None
                for oi in chain:
                    try:
                        exp = ops[oi][3](exp)
                    except (KeyError, TypeError) as err:
                        exp_exc = err
                        break
                    if exp is None:
                        break
                # the event data may be any MutableMapping (an earlier filter of the pipeline
                # may have returned one): every other chain gets a UserDict
                as_mapping = idx % 2 == 1
                inp = collections.UserDict(d) if as_mapping else dict(d)
                try:
                    got = flt(inp)
                    got_exc = None
                except Exception as err:
                    got, got_exc = None, err
                ctx.count('dataedit_chains')
                if as_mapping:
                    ctx.count('dataedit_chains_on_non_dict_mappings')
                ok = True
                if exp_exc is not None:
                    ok = type(got_exc) is type(exp_exc)
                elif got_exc is not None:
                    ok = False
                elif exp is None:
                    ok = not got and not isinstance(got, collections.abc.MutableMapping)
                else:
                    ok = isinstance(got, collections.abc.MutableMapping) and dict(got) == exp
                if not ok and nviol < 5:
                    nviol += 1
                    first_bad = desc
                    ctx.violation(
                        {'part': 'dataedit', 'chain': desc, 'input': d},
                        'dataedit-' + '-'.join(sorted({n for n, _ in desc})),
                        f"DataEdit chain {first_bad} on {d}: got {got!r} / {got_exc!r}, "
                        f"expected {exp!r} / {exp_exc!r}")
            ctx.case_done({'part': 'dataedit', 'chain': desc, 'style': style}, bool(chain),
                          {'chain': desc, 'inputs': len(dicts)}, enumerated=True)
    # independence of two filters built from the class
    f1 = DE.add(a=9)
    f2 = DE.delete('a')
    f3 = DE.add(z=1).delete('a')
    if f1({'a': 1}) != {'a': 9} or f2({'a': 1, 'b': 2}) != {'b': 2} or f1({}) != {'a': 9} \
            or f3({'a': 1}) != {'z': 1}:
        ctx.violation({'part': 'dataedit-independence'}, 'dataedit-shared-editlist',
                      "filters built from the DataEdit class influence each other")
    edzed.reset_circuit()


# ---------------- IfOutput / NotIfInitialized / add_output inside a simulation ----------------
def ctrl_cases(ctx):
    rng = ctx.rng('ctrl')
    for _ in range(100 if ctx.tier == 'quick' else 600):
        yield {'part': 'ctrl', 'vals': [rng.choice([0, 1, '', 'on', None, 2, [], [0], {}, {'value': -1},
                                                    {'k': 'x', 'source': 'cfg'}])
                                        for _ in range(rng.randrange(2, 9))],
               'byname': rng.random() < 0.5, 'inverted': rng.random() < 0.4,
               'late_filters': rng.random() < 0.3,
               'debug': rng.random() < 0.5}


def run_ctrl(case, ctx):
    import edzed
    hist = core.History()
    NotIfInit = getattr(edzed, 'NotIfInitialized', None) or getattr(edzed, 'IfNotIitialized')

    class Dest(edzed.SBlock):
        def init_regular(self):
            self.set_output(0)

        def _event(self, etype, data):
            hist.log('recv', self.name, etype, dict(data))

    class Starter(edzed.SBlock):
        """Sends events from inside its own initialisation (late is still uninitialised)."""
        def init_regular(self):
            self.set_output(0)
            r1 = self.x_ev.send(self, n=1)
            hist.log('sent', 1, r1, self.x_late.is_initialized())
            edzed.Event(self.x_late, 'put').send(self, value='now')
            r2 = self.x_ev.send(self, n=2)
            hist.log('sent', 2, r2, self.x_late.is_initialized())

    objs = {}

    def build():
        ctrl = edzed.Input('ctrl', initdef=case['vals'][0])
        ctrl2 = edzed.Input('ctrl2', initdef='two')
        dest = Dest('dest')
        late = edzed.Input('late')      # no initdef: initialised by an event only
        dinit = Dest('dinit')
        starter = Starter('starter', x_ev=None, x_late=late)
        if case.get('late_filters'):
            # the application finalizes the circuit explicitly and creates its events (with
            # filters naming their blocks) afterwards, before the start
            ctx.count('filters_created_after_explicit_finalize')
            edzed.get_circuit().finalize()
        ref = 'ctrl'
        if case['inverted'] and not case.get('late_filters'):
            # (an inverter cannot be created in a finalized circuit any more)
            ref = '_not_ctrl'
        elif not case['byname']:
            ref = ctrl
        objs['ev'] = edzed.Event(dest, 'e', efilter=edzed.IfOutput(ref))
        objs['ev_ao'] = edzed.Event(
            dest, 'ao', efilter=edzed.DataEdit.add_output('c', 'ctrl' if case['byname'] else ctrl))
        # the same source named twice (one chain) and once more in another event's filter
        src_ref = 'ctrl' if case['byname'] else ctrl
        objs['ev_ao2'] = edzed.Event(
            dest, 'ao2', efilter=edzed.DataEdit.add_output('c', src_ref).add_output('d', src_ref))
        objs['ev_ao3'] = edzed.Event(dest, 'ao3', efilter=edzed.DataEdit.add_output('e', src_ref))
        # one chain re-using a key for two different sources
        objs['ev_ao4'] = edzed.Event(dest, 'ao4', efilter=edzed.DataEdit.add_output(
            'v', src_ref).rename('v', 'first').add_output('v', 'ctrl2' if case['byname'] else ctrl2))
        ev_init = edzed.Event(dinit, 'i', efilter=NotIfInit('late' if case['byname'] else late))
        starter.x_ev = ev_init
        objs['ctrl'], objs['late'] = ctrl, late
        return objs

    async def drive(sim, objs):
        src = sim.circuit.findblock('starter')
        for k, v in enumerate(case['vals']):
            if k:
                edzed.ExtEvent(objs['ctrl']).send(v)
                await harness.settle(2)
            del hist.entries[:]
            ret = objs['ev'].send(src, k=k)
            out = objs['ctrl'].output
            exp = bool(out) != (case['inverted'] and not case.get('late_filters'))
            recv = [e for e in hist.kinds('recv') if e[4] == 'e']
            ctx.count('ifoutput_checks')
            if ret is not exp or len(recv) != int(exp):
                ctx.violation(case, 'ifoutput', f"IfOutput(inverted={case['inverted']}) with "
                              f"control output {out!r}: send() -> {ret!r}, {len(recv)} deliveries")
            elif exp and recv[0][5] != {'k': k, 'source': src.name}:
                # the filter only permits or vetoes, the data must pass unchanged
                ctx.violation(case, 'ifoutput-data', f"IfOutput with control output {out!r}: "
                              f"destination got {recv[0][5]!r}, sent {{'k': {k}}}")
            objs['ev_ao'].send(src, k=k)
            recv = [e for e in hist.kinds('recv') if e[4] == 'ao']
            if len(recv) != 1 or recv[0][5].get('c') != out or type(recv[0][5].get('c')) is not type(out):
                ctx.violation(case, 'add_output', f"add_output: control output {out!r}, got {recv}")
            try:
                objs['ev_ao4'].send(src, k=k)
                recv = [e for e in hist.kinds('recv') if e[4] == 'ao4']
                if len(recv) != 1 or recv[0][5].get('first') != out or recv[0][5].get('v') != 'two':
                    ctx.violation(case, 'add_output',
                                  f"add_output('v', A).rename('v', 'first').add_output('v', B): "
                                  f"A={out!r}, B='two', got {recv}")
            except Exception as err:    # pylint: disable=broad-except
                ctx.violation(case, 'add_output', f"add_output chain over two sources: {err!r}")
                return False
            for evname, keys in (('ao2', ('c', 'd')), ('ao3', ('e',))):
                try:
                    objs['ev_' + evname].send(src, k=k)
                except Exception as err:    # pylint: disable=broad-except
                    ctx.violation(case, 'add_output', f"add_output naming the same source again: "
                                  f"send() raised {err!r}")
                    return False
                recv = [e for e in hist.kinds('recv') if e[4] == evname]
                if len(recv) != 1 or any(recv[0][5].get(key) != out for key in keys):
                    ctx.violation(case, 'add_output',
                                  f"add_output x{len(keys)} of the same source: output {out!r}, got {recv}")
        return True

    out = harness.run_sim(build, drive, debug=case.get('debug', False))
    if out['exc'] is not None and not isinstance(out['exc'], vloop.Deadlock):
        raise out['exc']
    if not out.get('started'):
        ctx.violation(case, 'ctrl-start-failed', f"did not start: {out['sim'].init_exc}")
        ctx.case_done(case, False)
        return
    ctx.case_done(case, True, case)


def run_ifnotinit(ctx):
    """Separate: what happened during Starter.init_regular (history from the start-up)."""
    import edzed
    hist = core.History()
    NotIfInit = getattr(edzed, 'NotIfInitialized', None) or getattr(edzed, 'IfNotIitialized')
    for byname in (False, True):
        for order in (0, 1):
            del hist.entries[:]

            class Dest(edzed.SBlock):
                def init_regular(self):
                    self.set_output(0)

                def _event(self, etype, data):
                    hist.log('recv', self.name, etype, dict(data))

            class Starter(edzed.SBlock):
                def init_regular(self):
                    self.set_output(0)
                    late = self.circuit.findblock('late')
                    hist.log('sent', 1, self.x_ev.send(self, n=1), late.is_initialized())
                    edzed.Event(late, 'put').send(self, value='now')
                    hist.log('sent', 2, self.x_ev.send(self, n=2), late.is_initialized())

            def build():
                if order == 0:
                    late = edzed.Input('late')
                dinit = Dest('dinit')
                ev = edzed.Event(dinit, 'i', efilter=NotIfInit(
                    'late' if byname or order else late))
                Starter('starter', x_ev=ev)
                if order == 1:
                    edzed.Input('late')

            async def drive(sim, _):
                return True

            out = harness.run_sim(build, drive)
            case = {'part': 'ifnotinit', 'byname': byname, 'order': order}
            sent = hist.kinds('sent')
            recv = hist.kinds('recv')
            ctx.count('ifnotinit_checks')
            ok = (out.get('started') and len(sent) == 2
                  and sent[0][4] is True and sent[0][5] is False
                  and sent[1][4] is False and sent[1][5] is True
                  and len(recv) == 1 and recv[0][5].get('n') == 1)
            if not ok:
                ctx.violation(case, 'ifnotinitialized',
                              f"NotIfInitialized: sent={sent}, received={recv}, "
                              f"started={out.get('started')}", history=hist.dump())
            ctx.case_done(case, True, {'case': case, 'sent': sent, 'received': recv})


def run_ifnotinit_restored(ctx):
    """
    The control block got its value by restoring saved state in the first initialisation pass;
    the filtered event is sent during the asynchronous phase, i.e. before the control block's
    second pass: the block IS initialised, the event must be rejected.
    """
    import asyncio
    import edzed
    NotIfInit = getattr(edzed, 'NotIfInitialized', None) or getattr(edzed, 'IfNotIitialized')
    for byname in (False, True):
        hist = core.History()

        class Dest(edzed.SBlock):
            def init_regular(self):
                self.set_output(0)

            def _event(self, etype, data):
                hist.log('recv', self.name, etype, dict(data))

        class AsyncStarter(edzed.AddonAsync, edzed.SBlock):
            async def init_async(self):
                await asyncio.sleep(0.5)
                late = self.circuit.findblock('late')
                hist.log('sent', self.x_ev.send(self, n=1), late.is_initialized(), late.output)
                self.set_output(0)

        def build():
            late = edzed.Input('late', persistent=True, initdef='default')
            dinit = Dest('dinit')
            ev = edzed.Event(dinit, 'i', efilter=NotIfInit('late' if byname else late))
            AsyncStarter('starter', x_ev=ev, init_timeout=3)

        async def drive(sim, _):
            return True

        out = harness.run_sim(build, drive, storage={"<Input 'late'>": 'saved',
                                                     'edzed-stop-time': 0.0})
        case = {'part': 'ifnotinit_restored', 'byname': byname}
        sent = hist.kinds('sent')
        recv = hist.kinds('recv')
        ctx.count('ifnotinit_checks')
        ok = (out.get('started') and len(sent) == 1 and sent[0][3] is False
              and sent[0][4] is True and sent[0][5] == 'saved' and not recv)
        if not ok:
            ctx.violation(case, 'ifnotinitialized-restored-control-block',
                          f"NotIfInitialized with a control block restored from saved state, "
                          f"event sent during the asynchronous initialisation: sent={sent}, "
                          f"received={recv}, started={out.get('started')}", history=hist.dump())
        ctx.case_done(case, True, {'case': case, 'sent': sent, 'received': recv})


def run_case(case, ctx):
    part = case['part']
    if part == 'ifnotinit_restored':
        run_ifnotinit_restored(ctx)
        return
    if part == 'pipeline':
        run_pipeline_batch([case], ctx)
    elif part == 'edge':
        run_edge(case, ctx)
    elif part == 'delta':
        run_delta(case, ctx)
    elif part in ('dataedit',):
        run_dataedit({'part': 'dataedit', 'maxlen': case.get('maxlen', 3)}, ctx)
    elif part == 'ctrl':
        run_ctrl(case, ctx)
    else:
        run_ifnotinit(ctx)
        run_ifnotinit_restored(ctx)


def run_shard(ctx):
    batch = []
    for case in gen_pipeline_cases(ctx):
        batch.append(case)
        if len(batch) >= 50:
            run_pipeline_batch(batch, ctx)
            batch = []
    if batch:
        run_pipeline_batch(batch, ctx)
    for case in edge_cases(ctx):
        run_edge(case, ctx)
    for case in delta_cases(ctx):
        run_delta(case, ctx)
    for case in ctrl_cases(ctx):
        run_ctrl(case, ctx)
    if ctx.shard == 0:
        run_ifnotinit(ctx)
        run_ifnotinit_restored(ctx)
    for case in dataedit_cases(ctx):
        run_dataedit(case, ctx)
    ctx.exhaustive = True


def replay(rep, ctx):
    ctx.nshards, ctx.shard = 1, 0
    run_case(rep['case'], ctx)
