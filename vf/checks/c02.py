"""
C02 - output events reproduce the source block's output history exactly.

Trace property over the global history: assignments (begin/end), filter calls and deliveries.
"""

import asyncio
import collections
import collections.abc
import copy

from .. import core, harness, vloop

PROP = 'C02'
TECHNIQUE = ('runtime monitoring: trace property over the recorded history of output assignments, filter calls and deliveries (exactly-once, order, chaining previous/value, synchronous delivery)')
LEVEL = 'exploration'
RULE = ("case = (sender kind: Src probe / Input / Counter / FuncBlock identity / Not; sequence of "
        "1..40 assigned values from a 14-value alphabet with equal-but-not-identical neighbours; "
        "fan-out 0..3 events for on_output and on_every_output given as None/single/list/tuple; "
        "per-event filter chain from {pass, reject, new-dict edit, in-place edit, empty mapping (new and in-place), strip to 'value'} + a final "
        "recording filter); the oracle replays the assignments through a 30-line reference and "
        "compares every delivery (order, data, synchrony, chaining) with the recorded history; "
        "distinct = canonical case; non-trivial = at least one output event was delivered")
ASSUMPTIONS = [
    "change <=> Python '!=' between the retained output object and the assigned value "
    "(an equal value does not replace the retained object)",
    "for unchanged assignments (on_every_output) 'value' may be the assigned or the retained "
    "object (equal); everything else is compared strictly (type and value, identity for nan)",
    "assignment boundaries observed by instance-level wrappers of set_output / eval_block that "
    "log and delegate (no behaviour change)",
]
REQUIRED = {'assignments': 1000, 'deliveries': 1000, 'unchanged_assignments': 100,
            'every_output_deliveries': 100, 'cblock_assignments': 50, 'filter_rejections': 20, 'cleanup_assignments': 20, 'conditional_events': 50,
            'equal_not_identical_neighbours': 50}
SHARDS = {'quick': 8, 'thorough': 16}
TIMEOUT = {'quick': 300, 'thorough': 3000}

NAN = float('nan')
NOINIT = object()
VALUES = [0, 1, True, False, 1.0, None, '', (1,), (1.0,), [1], 'a', NAN, 2, -1]
NUMERIC = [0, 1, True, False, 1.0, 2, -1, 3, 2.0]
FKINDS = ['pass', 'reject_odd', 'edit_new', 'edit_inplace', 'pass', 'edit_empty', 'edit_clear', 'edit_strip', 'negate',
          'edit_userdict', 'edit_chainmap', 'edit_names']
FORMS = ['list', 'tuple', 'single', 'list', 'iter']     # 'iter': deprecated, still accepted


def strict_eq(a, b):
    return a is b or (type(a) is type(b) and a == b)


def data_eq(d1, d2, loose_value=None):
    if d1.keys() != d2.keys():
        return False
    for k in d1:
        if strict_eq(d1[k], d2[k]):
            continue
        if k == 'value' and loose_value is not None and strict_eq(d1[k], loose_value):
            continue
        return False
    return True


def apply_filter(kind, n, data, counter):
    """Scripted filter behaviour; used by the real filter and by the reference."""
    if kind == 'pass':
        return True
    if kind == 'reject_odd':
        counter[n] = counter.get(n, 0) + 1
        return counter[n] % 2 == 0
    if kind == 'edit_new':
        return {**data, f"f{n}": len(data)}
    if kind == 'edit_inplace':
        data[f"g{n}"] = 'x'
        return data
    if kind == 'edit_empty':
        return {}           # an empty mapping is a mapping: the event is sent without data items
    if kind == 'edit_clear':
        data.clear()        # in-place, same (now empty) object returned
        return data
    if kind == 'edit_strip':
        return {k: v for k, v in data.items() if k == 'value'}
    if kind == 'negate':
        return {**data, 'value': not data.get('value')}
    if kind == 'edit_names':
        # no data item name is reserved: items named like parameters of the delivery path
        return {**data, 'etype': f"t{n}", 'data': n, 'dest': 'nobody', 'name': None}
    if kind == 'edit_userdict':
        # any MutableMapping returned by a filter is the new event data, not only a dict
        return collections.UserDict({**data, f"u{n}": 'ud'})
    if kind == 'edit_chainmap':
        return collections.ChainMap({f"c{n}": 'cm'}, dict(data))
    raise AssertionError(kind)


def gen(ctx):
    rng = ctx.rng('gen')
    n = 1000 if ctx.tier == 'quick' else 70000
    for _ in range(n):
        sender = rng.choice(['src', 'src', 'input', 'counter', 'func', 'not', 'inputexp', 'poll',
                             'oasync', 'initasync'])
        alphabet = range(len(NUMERIC)) if sender == 'counter' else range(len(VALUES))
        length = rng.choice([1, 2, 3, 5, 8, 13, 20, 40])
        vals = []
        for _ in range(length):
            if vals and rng.random() < 0.35:
                # equal-but-not-identical or identical neighbour
                prev = vals[-1]
                pool = NUMERIC if sender == 'counter' else VALUES
                eqs = [i for i in alphabet if pool[i] == pool[prev]]
                vals.append(rng.choice(eqs) if eqs else prev)
            else:
                vals.append(rng.choice(alphabet))

        def evlist():
            k = rng.choice([0, 1, 1, 2, 3])
            return [{'dest': rng.randrange(3),
                     'filters': [rng.choice(FKINDS) for _ in range(rng.choice([0, 0, 1, 2]))],
                     'cond': rng.choice([None, None, None, 'tn', 'nt']),
                     'dup': rng.random() < 0.08}
                    for _ in range(k)]
        case = {'sender': sender, 'values': vals, 'on_output': evlist(),
                'on_every': evlist() if sender in ('src', 'input', 'counter', 'inputexp', 'poll',
                                                   'oasync', 'initasync') else [],
                'form': [rng.choice(FORMS), rng.choice(FORMS)],
                'initdef': rng.random() < 0.5}
        if sender == 'src' and rng.random() < 0.4:
            case['stop_value'] = rng.choice(alphabet)
        if sender == 'initasync':
            # initialised once, by a coroutine (result = 2nd value) or - when that fails or
            # takes too long - by the default (1st value, any kind of object incl. falsy ones)
            case['ia_mode'] = rng.choice(['ok', 'fail', 'timeout', 'fail', 'timeout'])
            if len(vals) < 2:
                vals.append(rng.choice(alphabet))
        if sender == 'oasync' and rng.random() < 0.5:
            # the start-up fails after the output block was started: it is never initialised,
            # still it processes its stop_data and its output (number of active runs) changes
            case['failed_start'] = True
        if sender in ('input', 'counter') and rng.random() < 0.3:
            # the first value comes from the persistent storage (a restart): the change from
            # UNDEF to the restored value is an output change like any other
            case['restored'] = True
        if rng.random() < 0.3:
            # the application goes on using the lists it has passed as on_output /
            # on_every_output (clears them, appends to them): the block keeps what it was given
            case['mutate_lists'] = rng.choice(['clear', 'append'])
        yield case


_CLASSES = {}


def build_and_run(case, ctx):
    import edzed
    hist = core.History()
    pool = NUMERIC if case['sender'] == 'counter' else VALUES
    counters = {}       # filter id -> call counter (reject_odd)

    # (the destination classes are created once per process: every new subclass of an ABC-based
    # add-on stays registered in the ABC machinery, thousands of them cost gigabytes)
    if 'Dest' not in _CLASSES:
        class Dest(edzed.SBlock):
            def init_regular(self):
                self.set_output(0)

            def _event(self, etype, data):
                snd = self.x_sender[0]
                self.x_hist.log('recv', self.name, etype, dict(data),
                                snd.output if snd is not None else None)
                return None

        class DestP(edzed.AddonPersistence, Dest):
            """A destination with the persistence add-on in its hierarchy (as Input, Counter)."""
            def _get_state(self):
                return self._output

            def _restore_state(self, state):
                self.set_output(state)
        _CLASSES['Dest'], _CLASSES['DestP'] = Dest, DestP
    Dest, DestP = _CLASSES['Dest'], _CLASSES['DestP']

    class Src(edzed.SBlock):
        def init_regular(self):
            if self.x_init is not NOINIT:
                self.set_output(self.x_init)

        def _event_set(self, *, value, **_data):
            self.set_output(value)

        def init_from_value(self, value):   # so that it can stay uninitialised until an event
            self.set_output(value)

        def stop(self):
            # an output assignment made during the clean-up (e.g. a safe value): the events
            # must be produced as for any other assignment
            if getattr(self, 'x_stop', NOINIT) is not NOINIT:
                ctx.count('cleanup_assignments')
                self.set_output(self.x_stop)
            super().stop()

    sender_ref = [None]
    evobjs = {}

    def mk_events(specs, tag, form):
        evs = []
        for ei, spec in enumerate(specs):
            filters = []
            for fi, kind in enumerate(spec['filters']):
                fid = (tag, ei, fi)

                def flt(data, kind=kind, fid=fid):
                    return apply_filter(kind, fid[2], data, counters.setdefault(fid[:2], {}))
                filters.append(flt)
            eid = (tag, ei)

            def rec(data, eid=eid):
                hist.log('lastfilter', eid, dict(data))
                return True
            filters.append(rec)
            etype = f"{tag}{ei}"
            if spec.get('cond') == 'tn':
                etype = edzed.EventCond(etype, None)
            elif spec.get('cond') == 'nt':
                etype = edzed.EventCond(None, etype)
            ev = edzed.Event(f"d{spec['dest']}", etype, efilter=filters)
            evs.append(ev)
            if spec.get('dup'):
                evs.append(ev)      # the very same Event object configured twice: sent twice
        if not evs:
            return None if form != 'tuple' else ()
        if form == 'tuple':
            return tuple(evs)
        if form == 'iter':
            return iter(evs)
        if form == 'single' and len(evs) == 1:
            return evs[0]
        return evs

    def build():
        for i in range(3):
            (DestP if i == 1 else Dest)(f"d{i}", x_sender=sender_ref, x_hist=hist)
        oo = mk_events(case['on_output'], 'o', case['form'][0])
        oe = mk_events(case['on_every'], 'e', case['form'][1])
        kind = case['sender']
        first = pool[case['values'][0]]
        if kind == 'src':
            s = Src('snd', x_init=first if case['initdef'] else NOINIT, on_output=oo,
                    on_every_output=oe, initdef=edzed.UNDEF,
                    x_stop=NOINIT if case.get('stop_value') is None else pool[case['stop_value']])
            feeder = s
        elif kind == 'input':
            s = edzed.Input('snd', on_output=oo, on_every_output=oe,
                            **({'persistent': True} if case.get('restored')
                               else {'initdef': first}))
            feeder = s
        elif kind == 'counter':
            s = edzed.Counter('snd', on_output=oo, on_every_output=oe,
                              **({'persistent': True, 'initdef': 12345}
                                 if case.get('restored') else {'initdef': first}))
            feeder = s
        elif kind == 'inputexp':
            # an FSM-based sender: every accepted 'put' re-assigns the output
            s = edzed.InputExp('snd', duration=10 ** 7, initdef=first, expired='EXPIRED',
                               on_output=oo, on_every_output=oe)
            feeder = s
        elif kind == 'oasync':
            # the output of an OutputAsync block = the number of its active runs
            async def job(value):
                await asyncio.sleep(0.25)
            s = edzed.OutputAsync('snd', coro=job, mode='start', stop_data={'value': 'STOP'},
                                  on_error=None, on_output=oo, on_every_output=oe)
            feeder = s
            if case.get('failed_start'):
                class BadStart(edzed.SBlock):
                    def init_regular(self):
                        self.set_output(0)

                    def start(self):
                        super().start()
                        raise RuntimeError('vf: start fails')
                BadStart('badstart')
        elif kind == 'initasync':
            second = copy.copy(pool[case['values'][1]])

            async def init_coro(mode):
                ctx.count('initasync_' + mode)
                await asyncio.sleep(0.2 if mode != 'timeout' else 5.0)
                if mode == 'fail':
                    raise RuntimeError('vf: no first value')
                return second
            s = edzed.InitAsync('snd', init_coro=[init_coro, case['ia_mode']], init_timeout=1.0,
                                initdef=copy.copy(first), on_output=oo, on_every_output=oe)
            feeder = s
        elif kind == 'poll':
            # a sender with asynchronous first-value initialisation (AddonAsyncInit): every
            # polled value is assigned, equal to the previous one or not
            script = [copy.copy(pool[i]) for i in case['values']]

            def poll():
                ctx.count('polled_values')
                return script.pop(0) if script else edzed.UNDEF
            s = edzed.ValuePoll('snd', func=poll, interval=1.0, on_output=oo, on_every_output=oe)
            feeder = s
        else:
            feeder = Src('feed', x_init=first, initdef=edzed.UNDEF)
            if kind == 'func':
                s = edzed.FuncBlock('snd', func=lambda x: x, on_output=oo).connect(feeder)
            else:
                s = edzed.Not('snd', on_output=oo).connect(feeder)
        sender_ref[0] = s
        if case.get('mutate_lists'):
            for lst in (oo, oe):
                if isinstance(lst, list):
                    ctx.count('event_lists_modified_after_use')
                    if case['mutate_lists'] == 'clear':
                        lst.clear()
                    else:
                        lst.append(edzed.Event('d0', 'not-configured'))
        # instance-level wrappers: log the boundaries of every assignment
        if isinstance(s, edzed.SBlock):
            orig = s.set_output

            def set_output(value):
                hist.log('assign_begin', value)
                try:
                    return orig(value)
                finally:
                    hist.log('assign_end', value)
            s.set_output = set_output
        else:
            orig_eval = s.eval_block
            orig_calc = s.calc_output

            in_eval = [False]

            def calc_output():
                value = orig_calc()
                if in_eval[0]:
                    hist.log('assign_begin', value)
                return value

            def eval_block():
                n0 = len(hist.entries)
                in_eval[0] = True
                try:
                    return orig_eval()
                finally:
                    in_eval[0] = False
                    if any(e[2] == 'assign_begin' for e in hist.entries[n0:]):
                        hist.log('assign_end', None)
            s.calc_output = calc_output
            s.eval_block = eval_block
        return s, feeder

    async def drive(sim, objs):
        s, feeder = objs
        await harness.settle(3)
        start = 0 if (case['sender'] == 'src' and not case['initdef']) else 1
        if case['sender'] == 'poll':
            await asyncio.sleep(len(case['values']) + 0.5)      # one value per second
            await harness.settle(3)
            return sim.alive()
        if case['sender'] == 'initasync':
            await asyncio.sleep(6.0)
            return sim.alive()
        if case['sender'] == 'oasync':
            for k, _idx in enumerate(case['values'][:6]):
                edzed.ExtEvent(feeder, 'put').send(k)
                await asyncio.sleep([0.0, 0.1, 0.3][k % 3])     # overlapping and separate runs
            await asyncio.sleep(0.5)
            return sim.alive()
        for idx in case['values'][start:]:
            v = pool[idx]
            if isinstance(feeder, (edzed.Counter, edzed.Input, edzed.InputExp)):
                edzed.ExtEvent(feeder, 'put').send(copy.copy(v))
            else:
                edzed.ExtEvent(feeder, 'set').send(copy.copy(v))
            await harness.settle(3)
            if not sim.alive():
                return False
        return True

    # 'src' without initdef needs an event before the circuit can initialise: use initdef path
    if case['sender'] == 'src' and not case['initdef']:
        case = dict(case, initdef=True)
    storage = None
    if case.get('restored'):
        ctx.count('senders_restored_from_storage')
        storage = harness.Storage()
        cls = 'Input' if case['sender'] == 'input' else 'Counter'
        dict.__setitem__(storage, f"<{cls} 'snd'>", copy.copy(pool[case['values'][0]]))
    out = harness.run_sim(build, drive, storage=storage)
    out['hist'] = hist
    out['case'] = case
    return out


def oracle(case, out, ctx):
    import edzed
    hist = out['hist']
    U = edzed.UNDEF
    if out['exc'] is not None:
        raise core.Violation('harness-exception', f"run raised {out['exc']!r}")
    if case.get('failed_start'):
        ctx.count('failed_start_output_histories')
        if out.get('started'):
            raise core.Inconclusive("C02: the failing start() did not fail the start-up")
    elif not out.get('started') or out['result'] is not True:
        raise core.Violation('simulation-stopped',
                             f"simulation stopped: {out['sim'].circuit.error!r} / {out['sim'].init_exc!r}")
    # split history into assignments
    assigns = []        # (value, [entries inside])
    outside = []
    cur = None
    for e in hist.entries:
        kind = e[2]
        if kind == 'assign_begin':
            if cur is not None:
                raise core.Violation('nested-assignment', "assignment inside an assignment")
            cur = [e[3], []]
        elif kind == 'assign_end':
            if cur is None:
                raise core.Violation('harness-boundary', "assign_end without begin")
            assigns.append(cur)
            cur = None
        elif cur is not None:
            cur[1].append(e)
        else:
            outside.append(e)
    if cur is not None:
        assigns.append(cur)
    if outside:
        raise core.Violation(
            'asynchronous-delivery',
            f"{len(outside)} event(s)/filter call(s) happened outside of any output assignment "
            f"(delivery must be finished before the assignment returns): {outside[:2]}")
    is_c = case['sender'] in ('func', 'not')
    retained = U
    counters = {}
    nontrivial = False
    last_value_sent = {}        # dest chain check for on_output: previous(j+1) == value(j)
    for k, (value, inside) in enumerate(assigns):
        ctx.count('assignments')
        if is_c:
            ctx.count('cblock_assignments')
        changed = retained != value
        if not changed:
            ctx.count('unchanged_assignments')
            if retained is not value and type(retained) is not type(value):
                ctx.count('equal_not_identical_neighbours')
        expected = []       # ('lastfilter', eid, data) / ('recv', dest, etype, data)
        base = {'trigger': 'output', 'previous': retained, 'value': value, 'source': 'snd'}
        groups = []
        if changed:
            groups.append(('o', case['on_output']))
        if not is_c:
            groups.append(('e', case['on_every']))
        for tag, specs in groups:
            for ei, spec in [(i, sp) for i, sp in enumerate(specs) for _ in range(2 if sp.get('dup') else 1)]:
                data = dict(base)
                alive = True
                for fi, kindf in enumerate(spec['filters']):
                    ret = apply_filter(kindf, fi, data, counters.setdefault((tag, ei), {}))
                    if isinstance(ret, collections.abc.MutableMapping):
                        data = ret
                    elif not ret:
                        alive = False
                        ctx.count('filter_rejections')
                        break
                if alive:
                    expected.append(('lastfilter', (tag, ei), dict(data)))
                    # a conditional event type is resolved from the 'value' item the
                    # destination would receive, i.e. after the filters
                    cond = spec.get('cond')
                    if cond:
                        ctx.count('conditional_events')
                    if not cond or (cond == 'tn') == bool(data.get('value')):
                        expected.append(('recv', f"d{spec['dest']}", f"{tag}{ei}", dict(data)))
        got = [e for e in inside if e[2] in ('recv', 'lastfilter')]
        if len(got) != len(expected):
            raise core.Violation(
                'delivery-count' + ('-unchanged' if not changed else ''),
                f"assignment #{k} {retained!r} -> {value!r} (changed={changed}): "
                f"{len(got)} filter/delivery records, expected {len(expected)}: got "
                f"{[(e[2], e[3]) for e in got]}, expected {[(x[0], x[1]) for x in expected]}")
        loose = None if changed else retained
        for g, x in zip(got, expected):
            if g[2] != x[0]:
                raise core.Violation('delivery-order', f"assignment #{k}: got {g[2:4]}, expected {x[:2]}")
            if x[0] == 'lastfilter':
                if tuple(g[3]) != tuple(x[1]):
                    raise core.Violation(
                        'event-order', f"assignment #{k}: events sent in order "
                        f"{[e[3] for e in got if e[2] == 'lastfilter']}, expected "
                        f"{[e[1] for e in expected if e[0] == 'lastfilter']}")
                if not data_eq(g[4], x[2], loose):
                    raise core.Violation(
                        'event-data', f"assignment #{k} {retained!r} -> {value!r}: data leaving the "
                        f"filters {g[4]!r}, expected {x[2]!r}")
            else:
                ctx.count('deliveries')
                nontrivial = True
                if g[3] != x[1] or g[4] != x[2]:
                    raise core.Violation(
                        'event-order', f"assignment #{k}: delivered {g[3]}/{g[4]}, expected {x[1]}/{x[2]}")
                if not data_eq(g[5], x[3], loose):
                    raise core.Violation(
                        'handler-data', f"assignment #{k} {retained!r} -> {value!r}: handler got "
                        f"{g[5]!r}, expected {x[3]!r}")
                if x[2].startswith('e'):
                    ctx.count('every_output_deliveries')
                if changed and not strict_eq(g[6], value):
                    raise core.Violation(
                        'output-not-yet-assigned',
                        f"assignment #{k}: at delivery the sender's output was {g[6]!r}, not {value!r}")
        if changed:
            retained = value
    if case['sender'] == 'inputexp' and len(assigns) != len(case['values']):
        # FSM-based sender: every accepted event ends with an output update (an assignment,
        # changed or not) - the initialisation and each of the puts
        raise core.Violation(
            'assignment-missing',
            f"InputExp sender: {len(case['values'])} accepted transitions (values "
            f"{[VALUES[i] for i in case['values']][:8]!r}), {len(assigns)} output assignments "
            f"observed: {[a[0] for a in assigns][:8]!r}")
    snd = out['objs'][0]
    if not strict_eq(snd.output, retained):
        raise core.Violation('final-output', f"sender output {snd.output!r}, reference {retained!r}")
    return nontrivial, len(assigns)


def run_case(case, ctx):
    out = build_and_run(case, ctx)
    try:
        nontrivial, nassign = oracle(out['case'], out, ctx)
    except core.Violation as v:
        ctx.violation(case, v.key, v.msg, history=out['hist'].dump(120))
        ctx.case_done(case, True)
        return
    pool = NUMERIC if case['sender'] == 'counter' else VALUES
    ctx.case_done(case, nontrivial, {
        'sender': case['sender'], 'values': [repr(pool[i]) for i in case['values']][:12],
        'on_output': case['on_output'], 'on_every_output': case['on_every'],
        'assignments_observed': nassign,
        'history_excerpt': out['hist'].dump(8)})


def run_shard(ctx):
    for case in gen(ctx):
        run_case(case, ctx)


def replay(rep, ctx):
    run_case(rep['case'], ctx)
