"""
Virtual wall clock for edzed: replaces what edzed's modules see as `time`
(time.time / time.sleep) and what edzed.blocklib.cron sees as `dt`
(datetime.datetime.now).  The wall clock is tied to the VirtualLoop's time:

    wall(vt) = base + (vt - loop.t0) + jump

'jump' is changed by fault injection (clock jumps).  Local time is UTC plus a
fixed offset so that a swapped 'utc' flag is visible.
"""

import datetime as _dt
import types

LOCAL_OFFSET = _dt.timedelta(hours=2)
_EPOCH = _dt.datetime(1970, 1, 1)

_CLOCK = None


class VClock:
    def __init__(self, loop, base_utc, read_cost=None, sleep_extra=None):
        """base_utc: naive datetime (UTC) corresponding to loop.t0."""
        self.loop = loop
        self.base = base_utc
        self.jump = 0.0
        self.read_cost = read_cost      # callable() -> seconds consumed by one clock read
        self.sleep_extra = sleep_extra  # callable() -> overshoot of a blocking sleep
        self.reads = 0

    def utcnow(self):
        self.reads += 1
        loop = self.loop
        if self.read_cost is not None:
            loop._vt += self.read_cost()
        return self.base + _dt.timedelta(seconds=(loop._vt - loop.t0) + self.jump)

    def peek_utc(self):
        """Read without cost (for the harness/oracle)."""
        loop = self.loop
        return self.base + _dt.timedelta(seconds=(loop._vt - loop.t0) + self.jump)

    def peek_local(self):
        return self.peek_utc() + LOCAL_OFFSET

    def time(self):
        return (self.utcnow() - _EPOCH).total_seconds()

    def peek_time(self):
        return (self.peek_utc() - _EPOCH).total_seconds()

    def sleep(self, secs):
        if secs > 0:
            self.loop._vt += secs
        if self.sleep_extra is not None:
            self.loop._vt += self.sleep_extra()


class FakeDT(_dt.datetime):
    @classmethod
    def now(cls, tz=None):
        utc = _CLOCK.utcnow()
        if tz is None:
            loc = utc + LOCAL_OFFSET
            return cls(loc.year, loc.month, loc.day, loc.hour, loc.minute, loc.second,
                       loc.microsecond)
        if tz is not _dt.timezone.utc:
            raise AssertionError("FakeDT.now: unexpected tz")
        return cls(utc.year, utc.month, utc.day, utc.hour, utc.minute, utc.second,
                   utc.microsecond, tzinfo=tz)


_TIME_MODULES = ('edzed.fsm', 'edzed.addons', 'edzed.simulator', 'edzed.utils.looptimes',
                 'edzed.blocklib.cron')
_saved = {}


def install(clock):
    """Install the virtual wall clock into edzed's modules.  Returns the clock."""
    global _CLOCK
    import importlib
    import time as real_time
    _CLOCK = clock
    tns = types.SimpleNamespace(
        time=clock.time, sleep=clock.sleep, monotonic=real_time.monotonic,
        perf_counter=real_time.perf_counter)
    for name in _TIME_MODULES:
        mod = importlib.import_module(name)
        if name not in _saved:
            _saved[name] = mod.time
        mod.time = tns
    cron = importlib.import_module('edzed.blocklib.cron')
    if 'dt' not in _saved:
        _saved['dt'] = cron.dt
    cron.dt = types.SimpleNamespace(
        datetime=FakeDT, time=_dt.time, date=_dt.date, timedelta=_dt.timedelta,
        timezone=_dt.timezone)
    return clock


def uninstall():
    global _CLOCK
    import importlib
    for name in _TIME_MODULES:
        if name in _saved:
            importlib.import_module(name).time = _saved[name]
    if 'dt' in _saved:
        importlib.import_module('edzed.blocklib.cron').dt = _saved['dt']
    _CLOCK = None


def selftest(clock):
    """Return None if the patch points are effective, else a reason (-> inconclusive)."""
    import asyncio
    import edzed
    from edzed.blocklib import cron
    from edzed.utils import looptimes
    saved = clock.read_cost
    clock.read_cost = None
    try:
        expect = clock.peek_utc()
        edzed.reset_circuit()
        c = cron.Cron('_vf_selftest', utc=True, _reserved=True)
        got = c.dtnow()
        if abs((got - expect).total_seconds()) > 1e-3:
            return f"Cron.dtnow() not virtual: {got} vs {expect}"
        c2 = cron.Cron('_vf_selftest2', utc=False, _reserved=True)
        got = c2.dtnow()
        if abs((got - expect - LOCAL_OFFSET).total_seconds()) > 1e-3:
            return f"Cron.dtnow() (local) not virtual: {got} vs {expect}"
        edzed.reset_circuit()

        async def probe():
            return looptimes.loop_to_unixtime(asyncio.get_running_loop().time())
        try:
            asyncio.get_running_loop()
        except RuntimeError:
            return None     # cannot test loop_to_unixtime outside the loop
        return None
    finally:
        clock.read_cost = saved
