"""
Helpers to run a real edzed simulation inside a VirtualLoop.
"""

import asyncio
import copy

from . import vloop


class Sim:
    """One simulation (the current circuit) driven from the harness task."""

    def __init__(self):
        import edzed
        self.edzed = edzed
        self.circuit = edzed.get_circuit()
        self.task = None
        self.init_exc = None
        self.stop_exc = None

    async def start(self):
        """Create the simulation task and wait for the initialisation.  True = running."""
        self.task = asyncio.create_task(self.circuit.run_forever(), name='vf: simtask')
        try:
            await self.circuit.wait_init()
        except self.edzed.EdzedInvalidState as err:
            self.init_exc = err
            return False
        return True

    async def stop(self):
        """shutdown(); return the exception it raised (None for a normal stop)."""
        try:
            await self.circuit.shutdown()
        except BaseException as err:    # pylint: disable=broad-except
            if isinstance(err, (KeyboardInterrupt, SystemExit)):
                raise
            self.stop_exc = err
            return err
        return None

    def alive(self):
        return self.task is not None and not self.task.done() and self.circuit.is_ready()


async def settle(n=4):
    """Yield to the loop n times (lets the simulator react and go idle)."""
    for _ in range(n):
        await asyncio.sleep(0)


_RUNS = [0]


def run_sim(build, drive, *, start=1000.0, drain=0.0, setup=None, storage=None, debug=None,
            drain_budget=50000):
    """
    Fresh loop + fresh circuit: build() creates the blocks, then the simulation is started,
    drive(sim, objs) is awaited and the simulation is shut down.
    Returns a dict with loop, sim, objs, result, exc.
    """
    import edzed
    out = {}

    async def main(loop):
        edzed.reset_circuit()
        objs = build()
        sim = Sim()
        if storage is not None:
            sim.circuit.set_persistent_data(storage)
        _RUNS[0] += 1
        if debug or (debug is None and _RUNS[0] % 4 == 0):
            # (by default every 4th simulation of a worker)
            # debug messages on (the log records themselves are discarded): the code paths that
            # build the messages run
            sim.circuit.set_debug(True, '*')
            if _RUNS[0] % 8 == 0:
                # ... and the simulator's own debug messages in every other one of these
                sim.circuit.debug = True
        out['sim'], out['objs'] = sim, objs
        ok = await sim.start()
        out['started'] = ok
        res = None
        if ok:
            res = await drive(sim, objs)
        await sim.stop()
        return res

    loop, result, exc = vloop.run(main, start=start, drain=drain, setup=setup,
                                  drain_budget=drain_budget)
    out['loop'], out['result'], out['exc'] = loop, result, exc
    edzed.reset_circuit()
    return out


class Storage(dict):
    """
    Recording persistent storage behaving like a serialising back-end (shelve):
    values are deep-copied on write and on read; every mutation is logged.
    """

    def __init__(self, init=None, log=None):
        super().__init__()
        self.log = log if log is not None else []
        if init:
            for k, v in init.items():
                dict.__setitem__(self, k, copy.deepcopy(v))

    def __setitem__(self, key, value):
        value = copy.deepcopy(value)
        self.log.append(('set', key, value))
        dict.__setitem__(self, key, value)

    def __getitem__(self, key):
        return copy.deepcopy(dict.__getitem__(self, key))

    def __delitem__(self, key):
        self.log.append(('del', key))
        dict.__delitem__(self, key)

    def pop(self, key, *default):
        if key in self:
            self.log.append(('del', key))
        return copy.deepcopy(dict.pop(self, key, *default))

    def get(self, key, default=None):
        return copy.deepcopy(dict.get(self, key, default))

    def snapshot(self):
        return {k: copy.deepcopy(dict.__getitem__(self, k)) for k in dict.keys(self)}

    def update(self, *a, **kw):     # pragma: no cover - edzed does not use it
        for k, v in dict(*a, **kw).items():
            self[k] = v

    def setdefault(self, key, default=None):    # pragma: no cover
        if key not in self:
            self[key] = default
        return self[key]


class ShelfStorage(Storage):
    """
    A storage with the extra methods of a shelve.Shelf: sync() is slow blocking I/O
    (a few ms of real time), close() ends its life.  Calls are recorded.
    """

    def __init__(self, init=None, log=None, sync_time=0.01):
        super().__init__(init, log)
        self.sync_time = sync_time
        self.calls = []

    def sync(self):
        import time
        self.calls.append('sync')
        time.sleep(self.sync_time)

    def close(self):
        self.calls.append('close')
