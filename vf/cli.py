"""
Parent process of a check.

usage:  ./check <PROP> quick|thorough
        ./check <PROP> --replay <file>
env:    VERIF_SEED (int, default 0), VERIF_JOBS (default: all cores, max 16),
        VERIF_REPO (default /repo; used only for self-validation against scratch copies)
exit:   0 held on everything explored, 1 VIOLATION, 2 INCONCLUSIVE
"""

import collections
import importlib
import json
import os
import shutil
import subprocess
import sys
import time

from . import core

KNOWN_FILE = os.path.join(core.VERIF, 'KNOWN_FINDINGS.txt')
# evidence and replays of runs against a scratch copy (self-validation with VERIF_REPO=...)
# never touch the registered evidence
if os.path.realpath(core.REPO) == '/repo':
    OUTROOT = core.VERIF
else:
    OUTROOT = os.path.join(core.VERIF, '.work', 'alt', core.REPO.strip('/').replace('/', '_'))


def load_known(prop):
    """Return {key: description} of 'finding:' lines for this property."""
    known = {}
    try:
        with open(KNOWN_FILE, encoding='utf-8') as f:
            for line in f:
                line = line.strip()
                if not line.startswith('finding:'):
                    continue
                fields = line.split(None, 3)
                if len(fields) < 3:
                    continue
                if fields[1] != f"property={prop}" or not fields[2].startswith('key='):
                    continue
                known[fields[2][4:]] = fields[3] if len(fields) > 3 else ''
    except FileNotFoundError:
        pass
    return known


def worker_env():
    env = dict(os.environ)
    env['PYTHONPATH'] = core.VERIF + os.pathsep + core.REPO
    env['PYTHONHASHSEED'] = '0'
    env['PYTHONPYCACHEPREFIX'] = os.path.join(core.VERIF, '.work', 'pyc')
    env['VERIF_REPO'] = core.REPO
    env.pop('PYTHONDONTWRITEBYTECODE', None)
    return env


def main(argv):
    if len(argv) < 2:
        print(__doc__)
        return 2
    prop = argv[0].upper()
    seed = int(os.environ.get('VERIF_SEED', '0') or 0)
    mod = importlib.import_module(f"vf.checks.{prop.lower()}")
    workroot = os.path.join(core.VERIF, '.work')
    workdir = os.path.join(workroot, f"{prop}-{os.getpid()}")
    os.makedirs(workdir, exist_ok=True)
    try:
        if argv[1] == '--replay':
            return do_replay(prop, mod, argv[2], seed, workdir)
        tier = argv[1]
        if tier not in ('quick', 'thorough'):
            print(__doc__)
            return 2
        return do_check(prop, mod, tier, seed, workdir)
    finally:
        shutil.rmtree(workdir, ignore_errors=True)


def do_replay(prop, mod, path, seed, workdir):
    with open(path, encoding='utf-8') as f:
        rep = json.load(f)
    out = os.path.join(workdir, 'replay.json')
    cmd = [sys.executable, '-m', 'vf.worker', prop, rep.get('tier', 'quick'),
           str(rep.get('seed', seed)), str(rep.get('shard', 0)), str(rep.get('nshards', 1)),
           out, path]
    subprocess.run(cmd, env=worker_env(), cwd=core.VERIF, timeout=600, check=False)
    with open(out, encoding='utf-8') as f:
        res = json.load(f)
    known = load_known(prop)
    bad = [v for v in res['violations'] if v['key'] not in known]
    for v in res['violations']:
        tag = 'KNOWN-FINDING' if v['key'] in known else 'VIOLATION'
        print(f"{tag} (replayed): property={prop} key={v['key']} {v['msg']}")
    if res['inconclusive']:
        print("INCONCLUSIVE:", *res['inconclusive'], sep='\n  ')
        return 2
    if bad:
        print(f"VIOLATION property={prop} replay={path}")
        return 1
    print(f"replay of {path}: no violation reproduced "
          f"({res['evaluations']} case(s) executed)")
    return 0


def do_check(prop, mod, tier, seed, workdir):
    t0 = time.monotonic()
    jobs = int(os.environ.get('VERIF_JOBS', '0') or 0) or min(16, os.cpu_count() or 4)
    nshards = getattr(mod, 'SHARDS', {}).get(tier, 16)
    timeout = getattr(mod, 'TIMEOUT', {}).get(tier, 600 if tier == 'quick' else 3600)
    env = worker_env()
    procs = {}
    pending = list(range(nshards))
    results = {}
    inconclusive = []
    deadline = time.monotonic() + timeout
    while pending or procs:
        while pending and len(procs) < jobs:
            shard = pending.pop(0)
            out = os.path.join(workdir, f"shard{shard}.json")
            cmd = [sys.executable, '-m', 'vf.worker', prop, tier, str(seed),
                   str(shard), str(nshards), out]
            procs[shard] = (subprocess.Popen(cmd, env=env, cwd=core.VERIF), out)
        for shard, (proc, out) in list(procs.items()):
            rc = proc.poll()
            if rc is None:
                continue
            del procs[shard]
            try:
                with open(out, encoding='utf-8') as f:
                    results[shard] = json.load(f)
            except Exception as err:
                inconclusive.append(f"shard {shard}: no result (rc={rc}): {err}")
        if time.monotonic() > deadline:
            for shard, (proc, out) in procs.items():
                proc.kill()
                inconclusive.append(f"shard {shard}: wall-clock watchdog ({timeout}s) fired")
            procs.clear()
            pending.clear()
            break
        time.sleep(0.02)

    # ---- merge ----
    evaluations = 0
    nontrivial = set()
    enumerated = 0
    capped = False
    samples = []
    counters = collections.Counter()
    sets = collections.defaultdict(set)
    violations = []
    vkeys = collections.Counter()
    exhaustive = None
    for shard in sorted(results):
        res = results[shard]
        evaluations += res['evaluations']
        nontrivial.update(res['nontrivial'])
        enumerated += res.get('enumerated', 0)
        capped = capped or res.get('capped', False)
        if len(samples) < 3:
            samples.extend(res['samples'][:1])
        counters.update(res['counters'])
        for name, vals in res['sets'].items():
            sets[name].update(json.dumps(v, sort_keys=True) for v in vals)
        for v in res['violations']:
            v['shard'] = shard
            violations.append(v)
        vkeys.update(res['vkeys'])
        inconclusive.extend(res['inconclusive'])
        if res.get('exhaustive') is not None:
            exhaustive = res['exhaustive'] if exhaustive is None else (
                exhaustive and res['exhaustive'])

    known = load_known(prop)
    required = getattr(mod, 'REQUIRED', {})
    if isinstance(required, dict) and tier in required and isinstance(required[tier], dict):
        required = required[tier]
    for name, minimum in required.items():
        if name in counters:
            got = counters[name]
        elif name in sets:
            got = len(sets[name])
        else:
            got = 0
        if got < minimum:
            inconclusive.append(
                f"monitor counter {name}={got} below the required minimum {minimum} "
                + "(deciding monitor not reached often enough)")
    n_distinct = len(nontrivial) + enumerated
    if n_distinct < 2 and not violations:
        inconclusive.append(f"only {n_distinct} distinct non-trivial cases")

    # ---- report ----
    unknown = [v for v in violations if v['key'] not in known]
    rc = 0
    for key, desc in known.items():
        print(f"KNOWN-FINDING: property={prop} key={key} observed={vkeys.get(key, 0)} {desc}")
    printed = set()
    if unknown:
        rc = 1
        repdir = os.path.join(OUTROOT, 'replays', prop)
        os.makedirs(repdir, exist_ok=True)
        for v in unknown:
            rep = {'property': prop, 'tier': tier, 'seed': seed, 'shard': v['shard'],
                   'nshards': nshards, **v}
            path = os.path.join(repdir, f"{v['key']}-{core.case_hash(v['case'])}.json")
            with open(path, 'w', encoding='utf-8') as f:
                json.dump(rep, f, indent=1)
            if v['key'] in printed and len(printed) > 0:
                continue
            printed.add(v['key'])
            print(f"VIOLATION property={prop} replay={path}")
            print(f"  key={v['key']} (seen {vkeys[v['key']]}x): {v['msg']}")
    if rc == 0 and inconclusive:
        rc = 2
    if inconclusive:
        for reason in inconclusive[:10]:
            print(f"INCONCLUSIVE property={prop} reason={reason}")

    wall = time.monotonic() - t0
    coverage = {
        'evaluations': evaluations,
        'distinct_nontrivial': n_distinct,
        'distinct_counting': {
            'hashed': len(nontrivial), 'distinct_by_enumeration': enumerated,
            'lower_bound_only': capped},
        'rule': mod.RULE,
        'samples': samples,
        'monitor_counters': dict(sorted(counters.items())),
        'distinct_observations': {k: len(v) for k, v in sorted(sets.items())},
        'shards': nshards,
        'shards_reporting': len(results),
        'violation_keys': dict(vkeys),
        'known_findings_observed': {k: vkeys.get(k, 0) for k in known},
        'verdict': {0: 'held', 1: 'violated', 2: 'inconclusive'}[rc],
        'inconclusive_reasons': inconclusive[:10],
    }
    if exhaustive is not None:
        coverage['exhaustive'] = bool(exhaustive)
    if hasattr(mod, 'coverage_extra'):
        coverage.update(mod.coverage_extra(tier, counters, sets))
    evidence = {
        'property_id': prop,
        'tier': tier,
        'seed': seed,
        'level': mod.LEVEL,
        'coverage': coverage,
        'assumptions': list(mod.ASSUMPTIONS),
        'wall_s': round(wall, 2),
        'violations': len(unknown),
    }
    evdir = os.path.join(OUTROOT, 'evidence')
    os.makedirs(evdir, exist_ok=True)
    with open(os.path.join(evdir, f"{prop}.json"), 'w', encoding='utf-8') as f:
        json.dump(evidence, f, indent=1, sort_keys=True)
        f.write('\n')
    print(f"{prop} {tier} seed={seed}: {coverage['verdict']}; {evaluations} cases, "
          f"{n_distinct} distinct non-trivial, {len(unknown)} violation(s), "
          f"{wall:.1f}s")
    keyc = ', '.join(f"{k}={v}" for k, v in sorted(counters.items())[:14])
    print(f"  observed: {keyc}")
    return rc


if __name__ == '__main__':
    sys.exit(main(sys.argv[1:]))
