"""
External hooks into edzed (installed from the harness, nothing is changed in /repo).
"""

import asyncio
import types

_IDLE_CB = [None]
_installed = False
idle_points = 0


class IdleQueue(asyncio.Queue):
    """
    Replacement for asyncio.Queue as seen by edzed.simulator: the simulator calls
    `await queue.get()` when it has nothing left to evaluate; when the queue is empty at that
    moment the simulator really suspends itself: that call is the instant "the simulator is
    idle".  (A get() on a non-empty queue returns at once without yielding - not an idle point.)
    """

    async def get(self):
        global idle_points
        if self.empty():
            idle_points += 1
            cb = _IDLE_CB[0]
            if cb is not None:
                cb(self)
        return await super().get()


class _AsyncioProxy(types.ModuleType):
    def __init__(self):
        super().__init__('asyncio_proxy_for_edzed_simulator')
        self.Queue = IdleQueue

    def __getattr__(self, name):
        return getattr(asyncio, name)


def install_idle_hook():
    """Make edzed.simulator create its sblock_queue as an IdleQueue (idempotent)."""
    global _installed
    import edzed.simulator as sim
    if not _installed or not isinstance(sim.asyncio, _AsyncioProxy):
        sim.asyncio = _AsyncioProxy()
        _installed = True


def set_idle_callback(cb):
    _IDLE_CB[0] = cb
