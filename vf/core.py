"""
Common pieces: result context, canonical case hashing, history log, harness set-up.
"""

import collections
import hashlib
import json
import logging
import os
import random
import sys
import time

REPO = os.environ.get('VERIF_REPO', '/repo')
VERIF = os.path.dirname(os.path.dirname(os.path.abspath(__file__)))


def jsonable(obj, depth=0):
    """Best-effort conversion to JSON-able data (for cases, samples and replays)."""
    if depth > 12:
        return repr(obj)
    if obj is None or isinstance(obj, (bool, int, str)):
        return obj
    if isinstance(obj, float):
        if obj != obj or obj in (float('inf'), float('-inf')):
            return repr(obj)
        return obj
    if isinstance(obj, dict):
        return {str(k) if not isinstance(k, str) else k: jsonable(v, depth + 1)
                for k, v in obj.items()}
    if isinstance(obj, (list, tuple)):
        return [jsonable(v, depth + 1) for v in obj]
    if isinstance(obj, (set, frozenset)):
        return sorted((jsonable(v, depth + 1) for v in obj), key=repr)
    return repr(obj)


def case_hash(case):
    data = json.dumps(jsonable(case), sort_keys=True, separators=(',', ':'))
    return hashlib.sha1(data.encode()).hexdigest()[:16]


def case_hash64(case):
    data = json.dumps(jsonable(case), sort_keys=True, separators=(',', ':'))
    return int.from_bytes(hashlib.blake2b(data.encode(), digest_size=8).digest(), 'big')


class Violation(Exception):
    """Raised by an oracle; key = mechanism key (never random values)."""
    def __init__(self, key, msg, **extra):
        super().__init__(msg)
        self.key = key
        self.msg = msg
        self.extra = extra


class Inconclusive(Exception):
    pass


class Ctx:
    """Per-worker result accumulator."""

    MAX_SAMPLES = 3
    MAX_VIOLATIONS = 40
    MAX_HASHES = 100_000    # per worker; beyond that distinct_nontrivial is a lower bound

    def __init__(self, prop, tier, seed, shard, nshards, replay=False):
        self.prop = prop
        self.tier = tier
        self.seed = seed
        self.shard = shard
        self.nshards = nshards
        self.replay = replay
        self.counters = collections.Counter()
        self.sets = collections.defaultdict(set)    # named sets of distinct observations
        self.nontrivial = set()
        self.enumerated = 0         # non-trivial cases that are distinct by construction
        self.capped = False
        self.evaluations = 0
        self.samples = []
        self.violations = []
        self.vkeys = collections.Counter()
        self.inconclusive = []
        self.exhaustive = None
        self.t_start = time.monotonic()
        self.budget = None      # seconds; generators may consult out_of_time()

    def rng(self, *tags):
        return random.Random(f"{self.seed}:{self.prop}:{self.shard}:" + ':'.join(map(str, tags)))

    def out_of_time(self):
        return self.budget is not None and time.monotonic() - self.t_start > self.budget

    def count(self, name, n=1):
        self.counters[name] += n

    def seen(self, name, value):
        s = self.sets[name]
        if len(s) < 5000:
            s.add(value)

    def case_done(self, case, nontrivial, sample=None, enumerated=False):
        """
        Register a finished case.  enumerated=True: the case comes from an enumeration that
        yields each case exactly once (distinct by construction) - it is counted, not hashed.
        """
        self.evaluations += 1
        if nontrivial:
            if enumerated:
                self.enumerated += 1
            elif len(self.nontrivial) < self.MAX_HASHES:
                self.nontrivial.add(case_hash64(case))
            else:
                self.capped = True
            if sample is not None and len(self.samples) < self.MAX_SAMPLES:
                self.samples.append(jsonable(sample))

    def violation(self, case, key, msg, history=None, **extra):
        self.vkeys[key] += 1
        if self.vkeys[key] > 3 or len(self.violations) >= self.MAX_VIOLATIONS:
            return      # keep a few witnesses per mechanism
        self.violations.append({
            'key': key, 'msg': msg, 'case': jsonable(case),
            'history': jsonable(history) if history is not None else None,
            'extra': jsonable(extra)})
        if self.replay:
            print(f"  !! {key}: {msg}")

    def to_json(self):
        return {
            'evaluations': self.evaluations,
            'nontrivial': sorted(self.nontrivial),
            'enumerated': self.enumerated,
            'capped': self.capped,
            'samples': self.samples,
            'counters': dict(self.counters),
            'sets': {k: sorted(v, key=repr)[:200] for k, v in self.sets.items()},
            'setsizes': {k: len(v) for k, v in self.sets.items()},
            'violations': self.violations,
            'vkeys': dict(self.vkeys),
            'inconclusive': self.inconclusive,
            'exhaustive': self.exhaustive,
            'wall': time.monotonic() - self.t_start,
        }


class History:
    """Append-only, totally ordered log of one case."""

    __slots__ = ('entries', 'loop')

    def __init__(self, loop=None):
        self.entries = []
        self.loop = loop

    def log(self, kind, *payload):
        vt = self.loop._vt if self.loop is not None else None
        self.entries.append((len(self.entries), vt, kind) + payload)

    def kinds(self, *kinds):
        return [e for e in self.entries if e[2] in kinds]

    def dump(self, limit=400):
        return [jsonable(e) for e in self.entries[:limit]]


_setup_done = False


def setup_edzed():
    """Import edzed from REPO, silence its logging, assert the origin."""
    global _setup_done
    import warnings
    if REPO not in sys.path[:2]:
        sys.path.insert(0, REPO)
    import edzed
    origin = os.path.realpath(edzed.__file__)
    if not origin.startswith(os.path.realpath(REPO) + os.sep):
        raise Inconclusive(f"edzed imported from {origin}, expected under {REPO}")
    if not _setup_done:
        logging.disable(logging.CRITICAL)
        warnings.simplefilter('ignore', DeprecationWarning)
        _setup_done = True
    return edzed


def perturb_addresses(rng, keep):
    """Allocate a seeded random amount of throw-away objects (address-space perturbation)."""
    n = rng.randrange(0, 40)
    keep.append([object() for _ in range(n)])
    if rng.random() < 0.5:
        keep.append(bytearray(rng.randrange(1, 5000)))
