#!/usr/bin/env python3
"""
Seeded regressions written by independent sub-agents (see DESIGN.md, section "Seeded changes").

usage: tools/seeded.py import <dir-with-patch.diff/demo.py/meta.json> <ID>   # validate + keep
       tools/seeded.py run [--tier quick|thorough] [--jobs N] [ID ...]      # re-run checks
       tools/seeded.py table                                                 # markdown table
       tools/seeded.py show <ID> [PROP]                                      # output of one check on the patched copy

'import' confirms in a scratch copy of /repo's current tree (under /tmp, removed afterwards):
patch applies; the repository's tests pass with it; the demonstration passes without the patch and
fails with it.  Only then the change is kept as /verif/seeded/<ID>/ and the property's check
(quick, then thorough when quick misses) is run against the patched scratch copy.
"""
import concurrent.futures
import json
import os
import shutil
import subprocess
import sys
import tempfile

HERE = os.path.dirname(os.path.abspath(__file__))
VERIF = os.path.dirname(HERE)
SEEDED = os.path.join(VERIF, 'seeded')
PY = '/venv/bin/python'
TESTCMD = [PY, '-m', 'pytest', '-q', '-x', '-p', 'no:cacheprovider', '--timeout=900',
           '--deselect', 'tests/test_outputasync.py::test_executor', '--deselect', 'test_outputasync.py::test_executor',
           '--deselect', 'test_outputasync.py::test_executor_args',
           '--deselect', 'tests/test_outputasync.py::test_executor_args', 'tests']


def scratch_copy(patch=None):
    scratch = tempfile.mkdtemp(prefix='edzed-seed-')
    for sub in ('edzed', 'tests', 'docs'):
        shutil.copytree(os.path.join('/repo', sub), os.path.join(scratch, sub))
    for f in ('pyproject.toml', 'setup.py', 'README.md'):
        if os.path.exists(os.path.join('/repo', f)):
            shutil.copy(os.path.join('/repo', f), scratch)
    if patch is not None:
        p = subprocess.run(['patch', '-p1', '--no-backup-if-mismatch', '-F3', '-i', patch],
                           cwd=scratch, capture_output=True, text=True)
        if p.returncode != 0:
            shutil.rmtree(scratch, ignore_errors=True)
            raise RuntimeError(f"patch does not apply: {p.stdout[-400:]} {p.stderr[-200:]}")
    return scratch


def cleanup(scratch):
    shutil.rmtree(scratch, ignore_errors=True)
    alt = os.path.join(VERIF, '.work', 'alt', scratch.strip('/').replace('/', '_'))
    shutil.rmtree(alt, ignore_errors=True)


def run_demo(scratch, demo):
    env = dict(os.environ, PYTHONPATH=scratch, PYTHONDONTWRITEBYTECODE='1')
    try:
        p = subprocess.run([PY, demo], cwd=scratch, env=env, capture_output=True, text=True,
                           timeout=180)
    except subprocess.TimeoutExpired:
        return -9, 'timeout'
    return p.returncode, (p.stdout + p.stderr).strip()[-300:]


def run_checks(scratch, props, tier, jobs):
    out = {}
    for prop in props:
        env = dict(os.environ, VERIF_REPO=scratch, VERIF_JOBS=str(jobs))
        p = subprocess.run([os.path.join(VERIF, 'check'), prop, tier], env=env,
                           capture_output=True, text=True, cwd=VERIF)
        lines = [l[:300] for l in p.stdout.splitlines() if l.startswith(('VIOLATION', '  key='))]
        out[prop] = {'rc': p.returncode, 'caught': p.returncode == 1 and any(l.startswith('VIOLATION property=') for l in p.stdout.splitlines()), 'lines': lines[:4]}
        if p.returncode not in (0, 1):
            out[prop]['tail'] = [l[:300] for l in p.stdout.strip().splitlines()[-3:]]
    return out


def check_one(sid, tier, jobs):
    d = os.path.join(SEEDED, sid)
    with open(os.path.join(d, 'meta.json')) as f:
        meta = json.load(f)
    props = meta.get('check_with') or [meta['property']]
    try:
        scratch = scratch_copy(os.path.join(d, 'patch.diff'))
    except RuntimeError as err:
        # (the library has moved on under the patch: it has to be rebased by hand)
        return meta, {p: {'rc': -1, 'caught': False, 'lines': [str(err)[:200]]} for p in props}
    try:
        res = run_checks(scratch, props, tier, jobs)
    finally:
        cleanup(scratch)
    return meta, res


def do_import(src, sid):
    with open(os.path.join(src, 'meta.json')) as f:
        meta = json.load(f)
    patch = os.path.join(src, 'patch.diff')
    demo = os.path.join(src, 'demo.py')
    confirm = {}
    clean = scratch_copy()
    try:
        rc, tail = run_demo(clean, demo)
        confirm['demo_unpatched_rc'] = rc
        if rc != 0:
            confirm['demo_unpatched_tail'] = tail
    finally:
        cleanup(clean)
    try:
        scratch = scratch_copy(patch)
    except RuntimeError as err:
        print(f"{sid}: REJECTED: {err}")
        return 1
    try:
        rc, tail = run_demo(scratch, demo)
        confirm['demo_patched_rc'] = rc
        confirm['demo_patched_tail'] = tail
        env = dict(os.environ, PYTHONPATH=scratch, PYTHONDONTWRITEBYTECODE='1')
        p = subprocess.run(TESTCMD, cwd=scratch, env=env, capture_output=True, text=True)
        confirm['tests_pass_with_patch'] = p.returncode == 0
        for _attempt in range(3):
            if p.returncode == 0:
                break
            # the suite contains wall-clock timing tests that fail on a loaded machine: retry
            confirm.setdefault('flaky_failures', []).extend(
                l.split(' - ')[0] for l in p.stdout.splitlines() if l.startswith('FAILED'))
            p = subprocess.run(TESTCMD, cwd=scratch, env=env, capture_output=True, text=True)
            confirm['tests_pass_with_patch'] = p.returncode == 0
            confirm['tests_tail'] = p.stdout.strip().splitlines()[-3:]
        ok = (confirm['demo_unpatched_rc'] == 0 and confirm['demo_patched_rc'] == 1
              and confirm['tests_pass_with_patch'])
        if not ok:
            print(f"{sid}: REJECTED (not confirmed): {json.dumps(confirm)[:600]}")
            return 1
        d = os.path.join(SEEDED, sid)
        os.makedirs(d, exist_ok=True)
        shutil.copy(patch, os.path.join(d, 'patch.diff'))
        shutil.copy(demo, os.path.join(d, 'demo.py'))
        meta['confirmed_by_me'] = confirm
        meta['what_i_ran'] = [
            "scratch copy of /repo's tree under /tmp (removed afterwards): patch -p1 < patch.diff",
            "demo.py on the clean copy (exit 0) and on the patched copy (exit 1)",
            ' '.join(TESTCMD) + " on the patched copy (all passed)",
            "./check <property> quick [thorough] with VERIF_REPO=<patched copy>",
        ]
        props = meta.get('check_with') or [meta['property']]
        res = run_checks(scratch, props, 'quick', 8)
        meta['detected'] = {'quick': res}
        if not any(r['caught'] for r in res.values()) and os.environ.get('SEEDED_THOROUGH', '1') != '0':
            res2 = run_checks(scratch, props, 'thorough', 16)
            meta['detected']['thorough'] = res2
        with open(os.path.join(d, 'meta.json'), 'w') as f:
            json.dump(meta, f, indent=1)
        # remember the result of the very first run (before any strengthening of the checks)
        flog = os.path.join(SEEDED, 'FIRST_RUN.json')
        import fcntl
        lockf = open(flog + '.lock', 'w')       # imports may run in parallel
        fcntl.flock(lockf, fcntl.LOCK_EX)
        try:
            with open(flog) as f:
                first = json.load(f)
        except Exception:
            first = {}
        if sid not in first:
            q = any(r['caught'] for r in meta['detected']['quick'].values())
            t = any(r['caught'] for r in meta['detected'].get('thorough', {}).values())
            first[sid] = ('caught (quick)' if q else 'quick missed, thorough caught' if t
                          else 'missed (quick+thorough)' if 'thorough' in meta['detected']
                          else 'missed (quick; thorough not run)')
            with open(flog, 'w') as f:
                json.dump(first, f, indent=1, sort_keys=True)
        status = {t: {p: ('CAUGHT' if r['caught'] else f"missed rc={r['rc']}")
                      for p, r in rr.items()} for t, rr in meta['detected'].items()}
        print(f"{sid}: kept; {status}")
        return 0
    finally:
        cleanup(scratch)


def main(argv):
    if not argv:
        print(__doc__)
        return 2
    if argv[0] == 'import':
        return do_import(argv[1], argv[2])
    if argv[0] == 'table':
        for sid in sorted(os.listdir(SEEDED)):
            if not os.path.isdir(os.path.join(SEEDED, sid)):
                continue
            with open(os.path.join(SEEDED, sid, 'meta.json')) as f:
                meta = json.load(f)
            det = meta.get('detected', {})
            cell = []
            for tier in ('quick', 'thorough'):
                for p, r in det.get(tier, {}).items():
                    if r['caught']:
                        key = r['lines'][1].split('(')[0].strip() if len(r['lines']) > 1 else ''
                        cell.append(f"{p} {tier}: {key}")
            summary = meta.get('summary', '').replace('|', '/')[:150]
            print(f"| {sid} | {summary} | {'; '.join(cell) or '**missed**'} |")
        return 0
    if argv[0] == 'run':
        tier, jobs, ids = 'quick', 4, []
        it = iter(argv[1:])
        for a in it:
            if a == '--tier':
                tier = next(it)
            elif a == '--jobs':
                jobs = int(next(it))
            else:
                ids.append(a)
        todo = [s for s in sorted(os.listdir(SEEDED))
                if os.path.isdir(os.path.join(SEEDED, s)) and (not ids or s in ids or any(s.startswith(i) for i in ids))]
        with concurrent.futures.ThreadPoolExecutor(max(1, 16 // jobs)) as ex:
            for sid, (meta, res) in zip(todo, ex.map(lambda s: check_one(s, tier, jobs), todo)):
                meta.setdefault('detected', {})[tier] = res
                if not os.path.isdir(os.path.join(SEEDED, sid)):
                    continue        # withdrawn while the run was in progress
                with open(os.path.join(SEEDED, sid, 'meta.json'), 'w') as f:
                    json.dump(meta, f, indent=1)
                print(sid, {p: ('CAUGHT' if r['caught'] else f"missed rc={r['rc']}")
                            for p, r in res.items()})
        return 0
    if argv[0] == 'show':
        # run one check against the patched scratch copy and print the end of its output
        # (never patch /repo itself for this: background runs read /repo's working tree)
        sid, prop = argv[1], (argv[2] if len(argv) > 2 else None)
        d = os.path.join(SEEDED, sid)
        with open(os.path.join(d, 'meta.json')) as f:
            meta = json.load(f)
        scratch = scratch_copy(os.path.join(d, 'patch.diff'))
        try:
            env = dict(os.environ, VERIF_REPO=scratch)
            p = subprocess.run([os.path.join(VERIF, 'check'), prop or meta['property'], 'quick'],
                               env=env, capture_output=True, text=True, cwd=VERIF)
            print('\n'.join(l[:700] for l in p.stdout.strip().splitlines()[-25:]))
        finally:
            cleanup(scratch)
        return 0
    print(__doc__)
    return 2


if __name__ == '__main__':
    sys.exit(main(sys.argv[1:]))
