#!/usr/bin/env python3
"""
Self-validation: apply catalogued mutants (realistic regressions) to a scratch copy of /repo and
run the quick tier of the checks that should catch them.

usage: tools/mutants.py list
       tools/mutants.py run [--tests] [--tier quick|thorough] [--jobs N] [ID ...]   (default: all)
Results: tools/mutants_result.json (merged).  Scratch copies live under /tmp and are removed.
"""
import concurrent.futures
import json
import os
import shutil
import subprocess
import sys
import tempfile

HERE = os.path.dirname(os.path.abspath(__file__))
VERIF = os.path.dirname(HERE)
sys.path.insert(0, HERE)
from mutant_catalog import MUTANTS     # noqa: E402


def run_one(m, tests, tier, jobs):
    scratch = tempfile.mkdtemp(prefix=f"edzed-mut-{m['id']}-")
    res = {'id': m['id'], 'props': m['props'], 'note': m.get('note', '')}
    try:
        shutil.copytree('/repo/edzed', os.path.join(scratch, 'edzed'))
        shutil.copytree('/repo/tests', os.path.join(scratch, 'tests'))
        for edit in m['edits']:
            path = os.path.join(scratch, edit['file'])
            with open(path, encoding='utf-8') as f:
                src = f.read()
            if src.count(edit['old']) != 1:
                res['error'] = f"pattern occurs {src.count(edit['old'])}x in {edit['file']}"
                return res
            with open(path, 'w', encoding='utf-8') as f:
                f.write(src.replace(edit['old'], edit['new']))
        env = dict(os.environ, PYTHONPATH=scratch, PYTHONDONTWRITEBYTECODE='1')
        rc = subprocess.run(['/venv/bin/python', '-c', 'import edzed'], env=env, cwd=scratch,
                            capture_output=True).returncode
        if rc != 0:
            res['error'] = 'mutant does not import'
            return res
        if tests:
            p = subprocess.run(
                ['/venv/bin/python', '-m', 'pytest', '-q', '-x', '-p', 'no:cacheprovider',
                 '--timeout=900', '--deselect', 'test_outputasync.py::test_executor', '--deselect', 'test_outputasync.py::test_executor_args', '--deselect', 'tests/test_outputasync.py::test_executor', '--deselect', 'test_outputasync.py::test_executor',
           '--deselect', 'test_outputasync.py::test_executor_args',
                 '--deselect', 'tests/test_outputasync.py::test_executor_args', 'tests'],
                env=env, cwd=scratch, capture_output=True, text=True)
            res['tests_green'] = p.returncode == 0
            if p.returncode != 0:
                res['tests_tail'] = p.stdout.strip().splitlines()[-3:]
        res['checks'] = {}
        for prop in m['props']:
            env2 = dict(os.environ, VERIF_REPO=scratch, VERIF_JOBS=str(jobs))
            p = subprocess.run([os.path.join(VERIF, 'check'), prop, tier], env=env2,
                               capture_output=True, text=True, cwd=VERIF)
            lines = [l for l in p.stdout.splitlines() if l.startswith(('VIOLATION', '  key='))]
            res['checks'][prop] = {'rc': p.returncode, 'caught': p.returncode == 1 and any(l.startswith('VIOLATION property=') for l in p.stdout.splitlines()),
                                   'lines': lines[:4]}
            if p.returncode not in (0, 1):
                res['checks'][prop]['tail'] = p.stdout.strip().splitlines()[-4:]
    finally:
        shutil.rmtree(scratch, ignore_errors=True)
        alt = os.path.join(VERIF, '.work', 'alt', scratch.strip('/').replace('/', '_'))
        shutil.rmtree(alt, ignore_errors=True)
    return res


def main(argv):
    if not argv or argv[0] == 'list':
        for m in MUTANTS:
            print(m['id'], m['props'], m.get('note', ''))
        return 0
    tests = '--tests' in argv
    tier = 'quick'
    jobs = 4
    ids = []
    it = iter(argv[1:])
    for a in it:
        if a == '--tests':
            continue
        if a == '--tier':
            tier = next(it)
        elif a == '--jobs':
            jobs = int(next(it))
        else:
            ids.append(a)
    todo = [m for m in MUTANTS if not ids or m['id'] in ids or any(p in ids for p in m['props'])]
    path = os.path.join(HERE, 'mutants_result.json')
    try:
        with open(path) as f:
            allres = json.load(f)
    except Exception:
        allres = {}
    with concurrent.futures.ThreadPoolExecutor(max(1, 16 // jobs)) as ex:
        for res in ex.map(lambda m: run_one(m, tests, tier, jobs), todo):
            prev = allres.get(res['id'], {})
            if 'tests_green' in prev and 'tests_green' not in res:
                res['tests_green'] = prev['tests_green']
            allres[res['id']] = res
            status = res.get('error') or ' '.join(
                f"{p}:{'CAUGHT' if c['caught'] else 'MISSED rc=%d' % c['rc']}"
                for p, c in res['checks'].items())
            tg = res.get('tests_green')
            print(f"{res['id']:40s} tests_green={tg} {status}")
    with open(path, 'w') as f:
        json.dump(allres, f, indent=1, sort_keys=True)
    return 0


if __name__ == '__main__':
    sys.exit(main(sys.argv[1:]))
