#!/usr/bin/env python3
"""Generate /verif/MANIFEST.json from the check modules that exist (run from /verif)."""
import importlib
import json
import os
import sys

HERE = os.path.dirname(os.path.abspath(__file__))
VERIF = os.path.dirname(HERE)
sys.path.insert(0, VERIF)
sys.path.insert(1, '/repo')

LEVEL_TEXT = {
    'exploration': "runtime monitoring: the real code is executed on generated/enumerated workloads "
                   "and a deterministic oracle judges every execution; held on the executions "
                   "listed in the evidence file, nothing more",
    'fault_enumeration': "runtime monitoring with systematic fault/crash-point enumeration: every "
                         "enumerated fault site x cause x instant is executed against the real code "
                         "and judged by the oracle; held on the enumerated combinations only",
}

props = [json.loads(l) for l in open(os.path.join(VERIF, 'properties.jsonl'))]
checks = []
na = []
for p in props:
    pid = p['id']
    try:
        mod = importlib.import_module(f"vf.checks.{pid.lower()}")
    except ModuleNotFoundError:
        na.append({'property_id': pid,
                   'reason': "check not built yet (work in progress; planned monitor described in DESIGN.md section 3)"})
        continue
    checks.append({
        'property_id': pid,
        'quick_cmd': f"./check {pid} quick",
        'thorough_cmd': f"./check {pid} thorough",
        'evidence_file': f"/verif/evidence/{pid}.json",
        'replay_cmd_template': f"./check {pid} --replay {{path}}",
        'engine': 'vf',
        'level_claimed': {
            'category': mod.LEVEL,
            'text': getattr(mod, 'LEVEL_TEXT', LEVEL_TEXT[mod.LEVEL]),
            'design_ref': f"DESIGN.md section 3, {pid}",
        },
        'level_note': '; '.join(mod.ASSUMPTIONS),
        'technique': getattr(mod, 'TECHNIQUE', 'runtime monitoring: ' + mod.RULE.split(';')[0][:160]),
    })

manifest = {
    'version': 1,
    'setup_cmd': "mkdir -p .work evidence replays && /venv/bin/python -c \"import sys; sys.path.insert(0,'/repo'); import edzed\"",
    'hooks': {
        'guard': 'EDZED_VERIF',
        'enable': "no source hooks: all instrumentation is installed from outside by the harness "
                  "(wrappers on module/instance attributes, probe blocks, virtual event loop and clock); "
                  "the guard name exists for form's sake only",
        'baseline_off_cmd': "cd /repo && /venv/bin/python -m pytest -ra -q -p no:cacheprovider --timeout=900 --continue-on-collection-errors",
        'source_commits': [],
        'add_only': True,
    },
    'engines': [{
        'name': 'vf',
        'path': '/verif/vf',
        'serves_properties': [c['property_id'] for c in checks],
        'kind_free_text': "runtime monitoring harness: real edzed code on a virtual-time asyncio loop "
                          "and virtual wall clock, probe blocks, history + reference-model oracles, "
                          "invariant hooks, fault enumeration",
    }],
    'checks': checks,
    'not_applicable': na,
    'notes': "See DESIGN.md. ./check <ID> quick|thorough; exit 0 held, 1 VIOLATION, 2 INCONCLUSIVE. "
             "Known findings / fixed defects: KNOWN_FINDINGS.txt. Seeded regressions: seeded/.",
}
with open(os.path.join(VERIF, 'MANIFEST.json'), 'w') as f:
    json.dump(manifest, f, indent=1)
    f.write('\n')
print(f"{len(checks)} checks, {len(na)} not yet claimed")
